#!/venv/bin/python
"""Confirm a seeded defect produced by a sub-agent and run checks against it.

usage: confirm_seed.py <worktree> <k> <seed-id> <property> [check ids...]
Steps (all in the scratch worktree, never in /repo):
  demo on clean tree -> must exit 0; apply patch; demo -> must exit != 0;
  unit tests with patch -> must pass; run ./check <id> --tier quick --repo <wt>
  for the listed checks; revert.  Writes /verif/seeded/<seed-id>/{patch.diff,
  demo.py, notes.md, meta.json}.
"""
import json
import os
import shutil
import subprocess
import sys
import time

wt, k, sid, prop = sys.argv[1:5]
checks = sys.argv[5:] or [prop]
sd = os.path.join(wt, os.environ.get("SEED_DIR", "_seeded"))
patch = os.path.join(sd, "patch%s.diff" % k)
demo = os.path.join(sd, "demo%s.py" % k)
notes = os.path.join(sd, "notes%s.md" % k)
PY = "/venv/bin/python"


def sh(cmd, cwd=None, timeout=1800):
    t = time.time()
    p = subprocess.run(cmd, shell=True, cwd=cwd, capture_output=True,
                       text=True, timeout=timeout)
    return p.returncode, (p.stdout + p.stderr)[-3000:], round(time.time() - t, 1)


meta = {"id": sid, "property": prop, "source": "fresh sub-agent, given only "
        "the property text and a scratch worktree", "confirmed": {}}
sh("git checkout -- tlslite", cwd=wt)
rc, out, dt = sh("git apply --check %s" % patch, cwd=wt)
APPLY = "git apply"
if rc != 0:
    # the tree moved on (later fix: commits nearby): retry with less context
    rc, out, dt = sh("git apply -C1 --recount --check %s" % patch, cwd=wt)
    if rc == 0:
        APPLY = "git apply -C1 --recount"
        meta["confirmed"]["applied_with_reduced_context"] = True
meta["confirmed"]["applies"] = rc == 0
rc, out, dt = sh("timeout 600 %s %s" % (PY, demo), cwd=wt)
meta["confirmed"]["demo_clean_exit"] = rc
sh("%s %s" % (APPLY, patch), cwd=wt)
try:
    rc, out, dt = sh("timeout 600 %s %s" % (PY, demo), cwd=wt)
    meta["confirmed"]["demo_patched_exit"] = rc
    meta["confirmed"]["demo_patched_tail"] = out[-400:]
    if "--skip-tests" not in os.environ.get("SEED_FLAGS", ""):
        rc, out, dt = sh("%s -m pytest -q -p no:cacheprovider -n 6 unit_tests "
                         "2>&1 | tail -3" % PY, cwd=wt, timeout=3000)
        meta["confirmed"]["unit_tests_tail"] = out.strip()[-300:]
        import re
        meta["confirmed"]["unit_tests_pass"] = bool(
            re.search(r"\b\d+ passed", out)) and not re.search(
                r"\b\d+ (failed|error)", out)
    det = {}
    for c in checks:
        rc, out, dt = sh("cd /verif && VERIF_EVIDENCE_DIR=/tmp/wt/evidence "
                         "timeout 1500 ./check %s --tier quick "
                         "--repo %s" % (c, wt), timeout=1600)
        lines = [l for l in out.splitlines()
                 if l.startswith(("VIOLATION", "violation:", "HARNESS"))]
        det[c] = {"exit": rc, "wall_s": dt, "lines": lines[:6]}
    meta["detection_quick"] = det
finally:
    sh("git checkout -- tlslite", cwd=wt)
dst = os.path.join(os.environ.get("SEED_OUT", "/verif/seeded"), sid)
os.makedirs(dst, exist_ok=True)
shutil.copy(patch, os.path.join(dst, "patch.diff"))
shutil.copy(demo, os.path.join(dst, "demo.py"))
if os.path.exists(notes):
    shutil.copy(notes, os.path.join(dst, "notes.md"))
    meta["needs_to_manifest"] = "see notes.md"
meta["ran"] = ["demo.py on clean and patched scratch worktree",
               "pytest unit_tests with the patch",
               "./check <id> --tier quick --repo <worktree with patch>"]
with open(os.path.join(dst, "meta.json"), "w") as f:
    json.dump(meta, f, indent=1)
print(json.dumps(meta, indent=1))
