#!/bin/bash
# run every claimed check's quick tier under several seeds; print alarms
cd "$(dirname "$0")/.."
for sd in "$@"; do
  for c in $(ls checks | grep -E '^c[0-9]+\.py$' | sed 's/\.py//' | tr a-z A-Z); do
    out=$(VERIF_SEED=$sd timeout 1500 ./check $c --tier quick 2>&1); rc=$?
    if [ $rc -ne 0 ]; then echo "== seed=$sd $c exit=$rc"; echo "$out" | grep -v "^KNOWN" | cut -c1-1500 | tail -12; else echo "ok seed=$sd $c $(echo "$out" | grep -c '^KNOWN') known"; fi
  done
done
