"""C13 - resumption reproduces the original session's security, or falls back
cleanly (stateful histories with per-node simulated clocks)."""

import copy
import hashlib
import json

from sim import kernel
kernel.boot()
from sim import nodes, scen, taps, observe, views, script as sim_script  # noqa

ID = "C13"
LEVEL = "exploration"
RULE = ("job = seed -> history of <= 9 operations over one client and two "
        "server configurations (own SessionCache(maxEntries, maxAge), "
        "ticketKeys, ticketLifetime, ticket_count), each node with its own "
        "simulated clock: connect (full | offering a stored session, "
        "optionally with changed SNI / offered suites / EMS / EtM, or to the "
        "other server), end of connection (clean close | fatal alert | "
        "crash), clock advance on client / server / both, ticket-key "
        "rotation (prepend / drop old / replace), cache eviction, bit flip "
        "in a stored ticket or session ID.  Oracle: reference model of 'may "
        "resume' (completed, not invalidated, unexpired by the server's "
        "clock, issued under a current key, consistent ClientHello); "
        "resumption observed on the wire => model allows it and the resumed "
        "connection carries the original suite/EMS/EtM/SNI/client identity; "
        "forged / altered / expired / foreign state => a full handshake "
        "completes.  distinct = digest(history); non-trivial = at least one "
        "resumption attempt reached the server"
        ' Servers are long-lived (cache ring pre-aged by a drawn number of writes), may hold an external TLS 1.3 PSK next to the ticket keys (client offering both), and the operator may change the server cipher policy between connections.'
        ' Connections may be held open concurrently and released later in any order (enumerated shared-session skeleton: two connections on one session ending in every order and way); invalidation is sticky in the model; both sides may meanwhile support TLS 1.3 (version upgrade); handshakes may be abandoned mid-flight (invariant: only sessions of completed handshakes sit in a cache as resumable entries).'
        ' Both ends of a resumed connection must hold the same master secret and exporter output; a ticket may be offered across a HelloRetryRequest (client without key shares).'
        ' ALPN is configured on all connections; a resumption may leave it out of the offer - both ends must agree on the protocol (or its absence) afterwards.'
        ' A client that fails before its ClientHello when offering a stored session (anything but the documented ValueError) is a broken fallback.  A held connection may die with a fatal alert after the next handshake call was made and before that call runs its first step (late invalidation).')
LEVEL_TEXT = ("Seeded exploration of connection histories; simulated time "
              "covers hours to days per history at millisecond cost, which "
              "is what makes expiry, rotation and skew reachable.  The "
              "reference model is conservative around expiry/eviction "
              "boundaries (no verdict within +-1 s / one cache slot).")
LEVEL_NOTE = ("Trusted: the reference model in this file; resumption is read "
              "off the wire (abbreviated flight / pre_shared_key in "
              "ServerHello), not from connection.resumed.  Stateless tickets "
              "cannot be invalidated server-side by design; the model only "
              "demands refusal where the library has the information.")
BUDGET = {"quick": 300, "thorough": 1200}
CHUNK = 4
PROBES = ["resumed_id", "resumed_ticket10", "resumed_ticket13",
          "fallback_full", "expired_by_server_clock", "clock_skew",
          "rotated_key", "evicted", "tampered", "foreign", "fatal_close",
          "crash", "changed_hello", "client_auth_resumed", "api_refused",
          "external_psk", "external_psk_over_ticket", "policy_changed",
          "policy_excludes_session", "held_open", "version_upgrade",
          "abandoned_handshake", "offer_across_hrr", "late_invalidation"]
COMPONENTS_REAL = ["tlslite client/server resumption paths, SessionCache, "
                   "ticket encryption/decryption, Session/Ticket objects"]
COMPONENTS_STUB = ["socket", "os.urandom", "time.time (per-node SimClock)"]
ASSUMPTIONS = ["honest endpoints; ideal transport"]

KEYS = ["%02x" % i * 32 for i in range(1, 9)]


class Srv(object):
    def __init__(self, name, ch, clock):
        from tlslite.api import SessionCache
        self.name = name
        self.clock = clock
        self.max_entries = [10, 3, 4][ch.draw(3, name + ".maxent")]
        self.max_age = [14400, 60, 600][ch.draw(3, name + ".maxage")]
        self.node = kernel.Node("srv-" + name, 0, clock)
        with self.node:
            self.cache = SessionCache(self.max_entries, self.max_age)
        self.keys = [KEYS[0 if name == "A" else 4]]
        self.nextkey = 1 if name == "A" else 5
        self.lifetime = [86400, 100, 3600][ch.draw(3, name + ".life")]
        self.tickets = [True, False][ch.draw(2, name + ".tick")]
        self.use_cache = [True, False][ch.draw(2, name + ".cache")] \
            if self.tickets else True
        self.ticket_count = [2, 1, 0][ch.draw(3, name + ".tcount")]
        self.inserted = 0      # sessions stored in the cache so far
        # a long-lived server: the ring has been written n times before the
        # history starts (position and wrap state of the ring vary per run)
        self.prewrap = ch.draw(2 * self.max_entries + 1, name + ".prewrap")
        # external TLS 1.3 PSK configured next to the ticket keys
        self.psk = [None, "sha256", "sha384", None][ch.draw(4, name + ".psk")]
        self.ciphers = None    # server-side cipherNames policy (None=default)

    def settings(self, ver):
        d = {"minVersion": list(ver), "maxVersion": list(ver),
             "ticketLifetime": self.lifetime,
             "ticket_count": self.ticket_count}
        if self.tickets:
            d["ticketKeys"] = list(self.keys)
        if self.ciphers:
            d["cipherNames"] = list(self.ciphers)
        if self.psk and tuple(ver) == (3, 4):
            d["pskConfigs"] = [list(scen.PSK_HEX) + [self.psk]]
        return d


def cache_fill(S, n, viol, hist=None):
    """Other clients' sessions land in the server's cache."""
    from tlslite.api import Session
    with S.node:
        for j in range(n):
            d = Session()
            d.resumable = True
            d.sessionID = bytearray(b"dummy%03d%03d" % (S.inserted, j))
            d.cipherSuite = 0x2f
            try:
                S.cache[d.sessionID] = d
            except Exception as e:      # noqa
                viol.append({"rule": "cache_internal_error",
                             "sig": type(e).__name__,
                             "msg": "SessionCache.__setitem__ raised %r "
                             "[history=%s]" % (e, json.dumps(hist))})
            S.inserted += 1


def psk_identities(ext41):
    """identities of a ClientHello pre_shared_key extension body"""
    out = []
    try:
        n = int.from_bytes(ext41[:2], "big")
        i = 2
        while i < 2 + n:
            ln = int.from_bytes(ext41[i:i + 2], "big")
            out.append(bytes(ext41[i + 2:i + 2 + ln]))
            i += 2 + ln + 4
    except Exception:       # noqa
        pass
    return out


PSK_ID = bytes.fromhex(scen.PSK_HEX[0])


def run(job, streams=None):
    from tlslite.errors import TLSAlert
    from tlslite.messages import Alert
    seed = job["seed"]
    if streams is None and job.get("preset") is not None:
        streams = job["preset"]
    ch = kernel.Chooser(seed=seed) if streams is None else \
        kernel.Chooser(streams=streams)
    if job.get("fam") == "shared":
        probes_shared = True
    sim = nodes.new_run(seed, chooser=ch, max_steps=400000, sched="first")
    cclock = kernel.SimClock()
    clocks = {"A": kernel.SimClock(), "B": kernel.SimClock()}
    srv = {n: Srv(n, ch, clocks[n]) for n in "AB"}
    viol = []
    for S_ in srv.values():
        if S_.prewrap:
            cache_fill(S_, S_.prewrap, viol)
    probes = {}
    hist = []
    stored = []      # client-side: dicts with 'session' and model info
    sim_time = 0.0
    nconn = [0]
    attempts = 0

    def v(rule, sig, msg):
        viol.append({"rule": rule, "sig": sig,
                     "msg": msg + " [history=%s]" % json.dumps(hist)})

    def connect(sname, ver, fl, offer, mods, before_run=None):
        """One connection.  Returns info dict."""
        S = srv[sname]
        i = nconn[0]
        nconn[0] += 1
        sc = {"flavour": "cert", "skey": "rsa",
              "cset": {"minVersion": list(ver), "maxVersion": list(ver)},
              "sset": S.settings(ver), "sni": "a.example"}
        if fl == "cauth":
            sc["ckey"] = "rsa"
            sc["req_cert"] = True
        if fl == "srp":
            sc["flavour"] = "srp"
            sc.pop("skey")
        if mods.get("sni"):
            sc["sni"] = mods["sni"]
        if mods.get("ems_off"):
            sc["cset"]["useExtendedMasterSecret"] = False
        if mods.get("etm_off"):
            sc["cset"]["useEncryptThenMAC"] = False
        if mods.get("ciphers"):
            sc["cset"]["cipherNames"] = mods["ciphers"]
        if mods.get("psk"):
            sc["cset"]["pskConfigs"] = [list(scen.PSK_HEX) + [mods["psk"]]]
        # ALPN is negotiated afresh on every connection, resumed or not
        if fl != "srp":
            sc["alpn_s"] = ["http/1.1", "h2"]
            if not mods.get("alpn_off"):
                sc["alpn_c"] = ["h2", "http/1.1"]
        if mods.get("hrr"):
            sc["cset"]["keyShares"] = []
            probes["offer_across_hrr"] = 1
        if mods.get("upgrade"):
            sc["cset"]["maxVersion"] = [3, 4]
            sc["sset"]["maxVersion"] = [3, 4]
        cnode = kernel.Node("c%d" % i, seed, cclock)
        snode = kernel.Node("s%d" % i, seed, S.clock)
        pair = nodes.Pair(sim, sc, policy="ideal", cnode=cnode, snode=snode,
                          names=("c%d" % i, "s%d" % i))
        tc = taps.SendTap(pair.c.conn)
        ts = taps.SendTap(pair.s.conn)
        tc.keep_plain = ts.keep_plain = True
        sess = offer["session"] if offer else None
        info = {"server": sname, "ver": ver, "conn": i, "pair": pair,
                "api_refused": False}
        oc = pair.c.start(("handshake", "client"),
                          pair.client_gen(sess))
        os_ = pair.s.start(("handshake", "server"),
                           pair.server_gen(S.cache if S.use_cache else None))
        if oc.kind == "exc" and isinstance(oc.exc, ValueError):
            # API-level refusal (mismatched server name / suite)
            info["api_refused"] = True
            pair.s.cancel()
            sim.links.remove(pair.link)
            sim.eps.remove(pair.c)
            sim.eps.remove(pair.s)
            return info
        if before_run is not None:
            # the handshake operations exist (the application has called
            # handshakeClient...(session=...)) but have not run a step yet
            sim.eps.remove(pair.c)
            sim.eps.remove(pair.s)
            before_run()
            sim.eps.append(pair.c)
            sim.eps.append(pair.s)
        st = sim.run()
        info["oc"], info["os"], info["st"] = oc, os_, st
        info["ok"] = oc.kind == "ok" and os_.kind == "ok"
        obs = observe.observe(pair, tc, ts)
        info["obs"] = obs
        resumed = None
        nver = tuple(obs["sh"]["version"]) if "sh" in obs else tuple(ver)
        info["neg_ver"] = nver
        if "sh" in obs:
            if nver == (3, 4):
                resumed = 41 in obs["sh"]["ext"]
                if resumed:
                    idents = psk_identities(
                        (obs.get("ch") or {}).get("ext", {}).get(41, b""))
                    sel = int.from_bytes(obs["sh"]["ext"][41][:2], "big")
                    if sel < len(idents) and idents[sel] == PSK_ID:
                        # the external PSK was selected: not a resumption
                        resumed = False
                        info["ext_psk"] = True
            else:
                resumed = 14 not in obs["server_msgs"]
        info["resumed_wire"] = resumed
        if info["ok"]:
            info["view_c"] = views.view(pair.c.conn)
            info["view_s"] = views.view(pair.s.conn)
            info["issue_time"] = S.clock.t
            info["key"] = S.keys[0] if S.tickets else None
        return info

    def finish(info, how):
        """Data exchange and end of connection."""
        pair = info["pair"]
        eps = {"c": pair.c, "s": pair.s}

        def op_gen(ep, op):
            conn = ep.conn
            if op[1] == "write":
                return lambda: conn.writeAsync(b"x" * op[2])
            if op[1] == "read":
                return lambda: conn.readAsync(None, op[2])
            if op[1] == "close":
                return lambda: conn.closeAsync()
            if op[1] == "alert":
                return lambda: conn._sendMsg(Alert().create(op[2], 2))
        scr = [["s", "write", 10], ["c", "read", 10],
               ["c", "write", 5], ["s", "read", 5]]
        if how == "clean":
            scr += [["c", "close"], ["s", "read", 1]]
        elif how == "fatal_c":
            scr += [["c", "alert", 80], ["s", "read", 1]]
        elif how == "fatal_s":
            scr += [["s", "alert", 80], ["c", "read", 1]]
        st = sim_script.run_script(sim, eps, scr, op_gen)
        if how == "crash":
            pair.c.sock.abort()
            pair.s.sock.abort()
        for ep in (pair.c, pair.s):
            if ep.op is not None:
                ep.cancel()
        sim.links.remove(pair.link)
        sim.eps.remove(pair.c)
        sim.eps.remove(pair.s)
        return st

    held = []
    completed_srv = set()

    def abandoned_connect(sname, ver, fl, cut):
        from sim import mitm
        S = srv[sname]
        i = nconn[0]
        nconn[0] += 1
        sc = {"flavour": "cert", "skey": "rsa",
              "cset": {"minVersion": list(ver), "maxVersion": list(ver)},
              "sset": S.settings(ver), "sni": "a.example"}
        if fl == "cauth":
            sc["ckey"] = "rsa"
            sc["req_cert"] = True
        if fl == "srp":
            sc["flavour"] = "srp"
            sc.pop("skey")
        pair = nodes.Pair(sim, sc, policy="ideal",
                          cnode=kernel.Node("c%d" % i, seed, cclock),
                          snode=kernel.Node("s%d" % i, seed, S.clock),
                          names=("c%d" % i, "s%d" % i))
        mitm.RecordMitm(pair.link, [{"dir": "c2s", "idx": cut + j,
                                     "kind": "drop"} for j in range(12)],
                        sim.stats)
        pair.c.start(("handshake", "client"), pair.client_gen(None))
        os_ = pair.s.start(("handshake", "server"),
                           pair.server_gen(S.cache if S.use_cache else None))
        sim.run()
        if os_.kind == "ok":
            # the cut came after everything the server needed
            completed_srv.add(id(pair.s.conn.session))
            if S.use_cache and tuple(ver) < (3, 4):
                S.inserted += 1
        for ep in (pair.c, pair.s):
            if ep.op is not None:
                ep.cancel()
        sim.links.remove(pair.link)
        sim.eps.remove(pair.c)
        sim.eps.remove(pair.s)

    def check_cache_invariant():
        # only sessions of COMPLETED handshakes may sit in a cache as
        # resumable entries
        for S_ in srv.values():
            for sid, sess in list(S_.cache.entriesDict.items()):
                if bytes(sid).startswith(b"dummy"):
                    continue
                if id(sess) not in completed_srv and sess.valid():
                    v("incomplete_session_cached", S_.name,
                      "the server's SessionCache offers a resumable session "
                      "whose handshake never completed")
                    return

    def release(info, rec, how):
        finish(info, how)
        probes[{"fatal_c": "fatal_close", "fatal_s": "fatal_close",
                "crash": "crash"}.get(how, "clean_close")] = 1
        pair_ = info["pair"]
        if pair_.c.conn.session is not None and \
                not pair_.c.conn.session.resumable:
            rec["lin_c"]["bad"] = True
        if pair_.s.conn.session is not None and \
                not pair_.s.conn.session.resumable:
            rec["lin_s"]["bad"] = True

    nops = 3 + ch.draw(7, "h.n")
    first = True
    for _ in range(nops):
        k = ch.draw(10, "h.kind") if not first else 0
        first = False
        if k <= 4:
            # ---- connect
            sname = "AB"[ch.draw(4, "h.srv") == 1]
            ver = [(3, 3), (3, 4), (3, 1), (3, 2)][ch.draw(4, "h.ver")]
            fl = ["plain", "cauth", "plain", "plain", "srp"][
                ch.draw(5, "h.fl")]
            if fl == "srp" and (ver == (3, 4) or (
                    stored and False)):
                fl = "plain"
            offer = None
            mods = {}
            late_release = None
            if stored and ch.draw(4, "h.offer") != 3:
                offer = stored[ch.draw(len(stored), "h.which")]
                if held and ch.draw(2, "h.offerheld") == 1:
                    # the session of a connection that is still open
                    hk = ch.draw(len(held), "h.whichheld")
                    offer = held[hk][1]
                    if ch.draw(3, "h.late") == 1:
                        # ... which dies with a fatal alert after the new
                        # handshake call was made, before it runs
                        late_release = held.pop(hk)
                ver = offer["ver"]
                fl = offer.get("fl", fl) if fl == "srp" or \
                    offer.get("fl") == "srp" else fl
                m = ch.draw(8, "h.mod")
                if m == 1:
                    mods["sni"] = "b.example"
                elif m == 2:
                    mods["ems_off"] = True
                elif m == 3:
                    mods["etm_off"] = True
                elif m == 4:
                    mods["ciphers"] = ["aes128gcm", "aes128"]
                elif m == 5:
                    mods["ciphers"] = ["aes256gcm", "chacha20-poly1305",
                                       "aes256"]
                elif m == 7 and tuple(ver) < (3, 4):
                    # this time the client does not offer ALPN
                    mods["alpn_off"] = True
                elif m in (6, 7) and tuple(ver) == (3, 4):
                    # no key share in the first ClientHello: the ticket is
                    # offered across a HelloRetryRequest (binders are
                    # recomputed over the restarted transcript)
                    mods["hrr"] = True
                if ch.draw(5, "h.keepsrv") != 1:
                    sname = offer["server"]
            if mods.get("ciphers") and srv[sname].ciphers and not (
                    set(mods["ciphers"]) & set(srv[sname].ciphers)):
                # client and server policies would share no cipher at all
                del mods["ciphers"]
            if offer and tuple(ver) < (3, 4) and not mods and \
                    fl != "srp" and ch.draw(6, "h.upgrade") == 1:
                # both sides meanwhile support TLS 1.3 as well: the old
                # session belongs to another protocol version
                mods["upgrade"] = True
            if tuple(ver) == (3, 4) and srv[sname].psk and \
                    ch.draw(3, "h.psk") == 1:
                mods["psk"] = srv[sname].psk
            end = ["clean", "clean", "fatal_c", "fatal_s", "crash", "hold"][
                ch.draw(6, "h.end")]
            if not offer and ch.draw(8, "h.abandon") == 1:
                # the client goes silent part-way through its flight and
                # both applications abandon their handshake calls
                cut = 1 + ch.draw(5, "h.cut")
                hist.append(["abandoned_handshake", sname, list(ver), fl,
                             cut])
                abandoned_connect(sname, ver, fl, cut)
                probes["abandoned_handshake"] = 1
                check_cache_invariant()
                continue
            hist.append(["connect", sname, list(ver), fl,
                         offer["idx"] if offer else None, mods, end])
            br = None
            if late_release is not None:
                how_l = ["fatal_c", "fatal_s"][ch.draw(2, "h.latehow")]
                hist.append(["released_before_first_step",
                             late_release[1]["idx"], how_l])
                probes["late_invalidation"] = 1

                def br(lr=late_release, how_=how_l):
                    release(lr[0], lr[1], how_)
            info = connect(sname, ver, fl, offer, mods, br)
            S = srv[sname]
            if info["api_refused"]:
                probes["api_refused"] = 1
                continue
            if info.get("ok"):
                # whatever the resumption outcome: the client identity the
                # server records must be what this handshake proved - the
                # presented chain on a full handshake, the original's on a
                # resumed one
                want = None
                if info["resumed_wire"] and offer:
                    want = offer["client_chain"]
                elif fl == "cauth" and not (
                        info.get("ext_psk") and
                        11 not in info["obs"]["client_msgs"]):
                    from sim import creds, views as _views
                    want = _views.chain_digest(creds.load("client", "rsa")[0])
                if info.get("ext_psk"):
                    probes["external_psk"] = 1
                    if offer and offer["session"].tickets:
                        probes["external_psk_over_ticket"] = 1
                    if info["view_c"]["resumed"] or info["view_s"]["resumed"]:
                        v("resumed_flag_disagreement", "external_psk|c=%s,s=%s"
                          % (info["view_c"]["resumed"],
                             info["view_s"]["resumed"]),
                          "external PSK selected on the wire (no resumption) "
                          "but connection.resumed: client %s server %s" %
                          (info["view_c"]["resumed"],
                           info["view_s"]["resumed"]))
                got = info["view_s"]["client_chain"]
                if got != want and not (info["resumed_wire"] and
                                        ver == (3, 4) and got is None):
                    v("wrong_client_identity",
                      "%s|%s" % ("resumed" if info["resumed_wire"] else
                                 "full", "none_presented" if want is None
                                 else "other"),
                      "server attributes client chain %r, this handshake "
                      "proved %r" % (got, want))
            if offer:
                attempts += 1
                judge_attempt(info, offer, S, mods, sname, v, probes, srv)
            elif not info["ok"]:
                v("full_handshake_failed", "%s" % (ver,),
                  "plain full handshake failed: client=%r server=%r" %
                  (info["oc"].exc, info["os"].exc))
            if info["ok"]:
                completed_srv.add(id(info["pair"].s.conn.session))
                ver = info["neg_ver"]
                if S.use_cache and not info["resumed_wire"] and \
                        ver < (3, 4):
                    S.inserted += 1
                pair = info["pair"]
                sess = pair.c.conn.session
                # sticky "was invalidated" flags per Session object (the
                # library's own flag could be switched back on)
                lin_c = offer["lin_c"] if offer and \
                    sess is offer["session"] else {"bad": False}
                lin_s = offer["lin_s"] if offer and pair.s.conn.session is \
                    offer["server_session"] else {"bad": False}
                rec = {"idx": len(stored), "session": sess,
                       "lin_c": lin_c, "lin_s": lin_s,
                       "server": sname, "ver": ver,
                       "suite": info["view_c"]["suite"],
                       "ems": info["view_c"]["ems"],
                       "etm": info["view_c"]["etm"],
                       "sni": info["view_c"]["sni"],
                       "client_chain": info["view_s"]["client_chain"],
                       "issue_time": info["issue_time"],
                       "key": info["key"], "tampered": False,
                       "inserted_at": S.inserted,
                       "server_session": pair.s.conn.session,
                       "in_cache": S.use_cache and ver < (3, 4)
                       and not info["resumed_wire"],
                       "resumed_conn": bool(info["resumed_wire"]), "fl": fl,
                       "resumed_via": info.get("mech"),
                       "end": end}
                if info["resumed_wire"] and offer:
                    # a resumed connection carries the original's identity
                    for f in ("issue_time", "inserted_at", "in_cache"):
                        if ver < (3, 4):
                            rec[f] = offer[f]
                    if ver < (3, 4) and not sess.tls_1_0_tickets:
                        rec["key"] = offer["key"]
                stored.append(rec)
                if end == "hold":
                    # the connection stays open while others come and go
                    held.append((info, rec))
                    probes["held_open"] = 1
                else:
                    release(info, rec, end)
            else:
                pair = info["pair"]
                for ep in (pair.c, pair.s):
                    if ep.op is not None:
                        ep.cancel()
                if pair.link in sim.links:
                    sim.links.remove(pair.link)
                    sim.eps.remove(pair.c)
                    sim.eps.remove(pair.s)
        elif k == 5:
            who = ch.draw(4, "h.clk")
            S = srv["AB"[ch.draw(2, "h.clksrv")]]
            dt = [1, 59, 61, 99, 101, 599, 601, 3599, 3601, 14399, 14401,
                  86399, 86401, 7 * 86400 + 1][ch.draw(14, "h.dt")]
            hist.append(["clock", who, S.name, dt])
            if who in (0, 1):
                S.clock.advance(dt)
            if who in (0, 2):
                cclock.advance(dt)
            if who == 3:
                for s_ in srv.values():
                    s_.clock.advance(dt)
                cclock.advance(dt)
            if who in (1, 2):
                probes["clock_skew"] = 1
            sim_time += dt
        elif k == 6:
            S = srv["AB"[ch.draw(2, "h.rotsrv")]]
            how = ch.draw(3, "h.rot")
            hist.append(["rotate", S.name, how])
            if S.tickets:
                new = KEYS[S.nextkey % 8]
                S.nextkey += 1
                if how == 0:
                    S.keys.insert(0, new)
                elif how == 1 and len(S.keys) > 1:
                    S.keys.pop()
                else:
                    S.keys[:] = [new]
                probes["rotated_key"] = 1
        elif k == 7 and ch.draw(3, "h.pol") == 1:
            # the operator tightens / changes the server's cipher policy
            # while cache and ticket keys persist
            S = srv["AB"[ch.draw(2, "h.polsrv")]]
            S.ciphers = [["aes128gcm", "aes128"],
                         ["aes256gcm", "chacha20-poly1305", "aes256"],
                         None][ch.draw(3, "h.polset")]
            hist.append(["policy", S.name, S.ciphers])
            probes["policy_changed"] = 1
        elif k == 7:
            S = srv["AB"[ch.draw(2, "h.evsrv")]]
            n = 1 + ch.draw(S.max_entries + 1, "h.evn")
            hist.append(["evict", S.name, n])
            cache_fill(S, n, viol, hist)
            probes["evicted"] = 1
        elif k in (8, 9) and held and (k == 9 or
                                       ch.draw(2, "h.relmore") == 1):
            info_, rec_ = held.pop(ch.draw(len(held), "h.rel"))
            how = ["clean", "fatal_c", "fatal_s", "crash"][
                ch.draw(4, "h.relhow")]
            hist.append(["release", rec_["idx"], how])
            release(info_, rec_, how)
        elif k in (8, 9) and stored:
            src = stored[ch.draw(len(stored), "h.tamp")]
            hist.append(["tamper", src["idx"]])
            cl = copy.copy(src)
            s2 = src["session"]._clone()
            s2.sessionID = bytearray(s2.sessionID)
            part = "id"
            if s2.tickets:
                part = "ticket13"
                s2.tickets = [copy.copy(t) for t in s2.tickets]
                t0 = s2.tickets[0]
                t0.ticket = bytearray(t0.ticket)
                t0.ticket[ch.draw(len(t0.ticket), "h.tpos")] ^= 1
            elif s2.tls_1_0_tickets:
                part = "ticket10"
                s2.tls_1_0_tickets = [copy.copy(t)
                                      for t in s2.tls_1_0_tickets]
                t0 = s2.tls_1_0_tickets[0]
                t0.ticket = bytearray(t0.ticket)
                t0.ticket[ch.draw(len(t0.ticket), "h.tpos")] ^= 1
            elif s2.sessionID:
                s2.sessionID[ch.draw(len(s2.sessionID), "h.tpos")] ^= 1
            cl["session"] = s2
            # two flips of the same bit give the original back
            root = src
            while root.get("tampered_from") is not None:
                root = stored[root["tampered_from"]]
            r0 = root["session"]
            same = bytes(s2.sessionID) == bytes(r0.sessionID) and \
                [bytes(t.ticket) for t in (s2.tickets or [])] == \
                [bytes(t.ticket) for t in (r0.tickets or [])] and \
                [bytes(t.ticket) for t in (s2.tls_1_0_tickets or [])] == \
                [bytes(t.ticket) for t in (r0.tls_1_0_tickets or [])]
            cl["tampered"] = False if same else part
            cl["tampered_from"] = src["idx"]
            # the copy is another Session object: what happens to the
            # original later does not reach it
            cl["lin_c"] = {"bad": src["lin_c"]["bad"]}
            cl["idx"] = len(stored)
            stored.append(cl)
            probes["tampered"] = 1
    key = hashlib.sha256(json.dumps(hist, sort_keys=True).encode()).hexdigest()
    h = hashlib.sha256()
    h.update(json.dumps(hist, sort_keys=True).encode())
    h.update(json.dumps([x["sig"] for x in viol]).encode())
    h.update(ch.digest().encode())
    return {"violations": viol, "nontrivial": attempts > 0, "key": key,
            "digest": h.hexdigest(), "faults": dict(sim.stats),
            "probes": probes, "steps": sim.steps, "order": "",
            "sim_time": sim_time,
            "states": [json.dumps(x[:1] + x[2:3]) for x in hist][:6],
            "streams": ch.streams(), "inconclusive": False,
            "sample": {"history": hist}}


def judge_attempt(info, offer, S, mods, sname, v, probes, srv):
    ver = offer["ver"]
    sess = offer["session"]
    resumed = info["resumed_wire"]
    t = S.clock.t
    # ---- which mechanism did the client put on the wire?
    chh = info["obs"].get("ch_first") or info["obs"].get("ch")
    if chh is None:
        # the client gave up before it sent anything (API-level refusals of
        # the offered session were sorted out before)
        e = info["oc"].exc if info["oc"].kind == "exc" else None
        if e is not None and isinstance(e, ValueError):
            probes["api_refused"] = 1       # documented refusal of the offer
        elif e is not None:
            from sim.trace import where
            v("fallback_broken", "before_hello|%s|%s" % (type(e).__name__,
                                                         where(e)),
              "offering a stored session made the client fail before its "
              "ClientHello: %r" % (e,))
        return
    ext = chh["ext"]
    mech = None
    if ver == (3, 4):
        if 41 in ext and [i for i in psk_identities(ext[41])
                          if i != PSK_ID]:
            mech = "ticket13"
    else:
        if 35 in ext and len(ext[35]) > 0:
            mech = "ticket10"
        elif chh["session_id"] and bytes(chh["session_id"]) == \
                bytes(sess.sessionID) and sess.sessionID:
            mech = "id"
    if mech is None:
        # nothing offered (client dropped expired tickets / invalid session)
        if resumed:
            v("resumed_without_offer", str(ver), "server resumed although "
              "the ClientHello carried no resumption state")
        elif not info["ok"]:
            v("fallback_broken", "no_offer|%s" % (ver,),
              "no state offered but handshake failed: %r %r" %
              (info["oc"].exc, info["os"].exc))
        return
    # ---- model: may this resume?
    reasons = []          # hard reasons: must NOT resume, must fall back
    soft = []             # inconsistent ClientHello: alert or full handshake
    unsure = False
    if info.get("neg_ver") and tuple(info["neg_ver"]) != tuple(ver):
        reasons.append("session of another protocol version")
        probes["version_upgrade"] = 1
    if sname != offer["server"]:
        reasons.append("foreign")
        probes["foreign"] = 1
    if offer["lin_c"]["bad"] or not offer["session"].resumable:
        # the client's own Session object was invalidated by a fatal alert it
        # received: it must not be offered, let alone resumed
        reasons.append("client session invalidated by a fatal error")
    if offer["tampered"] and offer["tampered"] == mech:
        # only the tampered element counts: a client may drop an (expired)
        # tampered ticket and legitimately offer the intact session ID
        reasons.append("tampered")
    if mech in ("ticket10", "ticket13"):
        if not S.tickets:
            reasons.append("tickets disabled")
        elif offer["key"] not in S.keys:
            reasons.append("ticket key rotated out")
        age = t - offer["issue_time"]
        if age > S.lifetime + 1:
            reasons.append("expired by server clock")
            probes["expired_by_server_clock"] = 1
        elif age > S.lifetime - 1:
            unsure = True
    if mech == "id":
        if not S.use_cache:
            reasons.append("no cache")
        age = t - offer["issue_time"]
        if age > S.max_age + 1:
            reasons.append("expired by server clock")
            probes["expired_by_server_clock"] = 1
        elif age > S.max_age - 1:
            unsure = True
        newer = S.inserted - offer["inserted_at"]
        if not offer["in_cache"]:
            reasons.append("never cached")
        elif newer >= S.max_entries:
            reasons.append("evicted")
        elif newer >= S.max_entries - 1:
            unsure = True
        if offer["lin_s"]["bad"] or not offer["server_session"].resumable:
            cached = S.cache.entriesDict.get(bytes(sess.sessionID))
            if cached is not None and cached is not offer["server_session"] \
                    and offer.get("resumed_via") == "ticket10":
                reasons.append("invalidated by a fatal error on a "
                               "ticket-resumed connection (cache entry "
                               "untouched)")
            else:
                reasons.append("invalidated on the server by a fatal error")
    if ver < (3, 4) and S.ciphers:
        sa = scen.all_suites()
        if offer["suite"] in sa and sa[offer["suite"]].cipher not in S.ciphers:
            reasons.append("suite no longer allowed by the server's policy")
            probes["policy_excludes_session"] = 1
    if mods.get("sni") and mods["sni"] != offer["sni"]:
        soft.append("sni changed")
    if mods.get("ems_off") and offer["ems"]:
        soft.append("ems dropped")
    if mods.get("etm_off") and offer["etm"]:
        soft.append("etm dropped")
    if mods.get("ciphers"):
        soft.append("offered suites changed")
    if mods:
        probes["changed_hello"] = 1
    ctx = "mechanism=%s reasons=%s soft=%s" % (mech, reasons, soft)
    info["mech"] = mech if resumed else None
    if resumed:
        probes["resumed_" + mech] = 1
        if reasons and not unsure:
            v("resumed_illegitimately", "%s|%s" % (mech, reasons[0]),
              "connection was resumed although: %s (%s)" %
              ("; ".join(reasons), ctx))
        if info["ok"]:
            vc, vs = info["view_c"], info["view_s"]
            for side, vw in (("client", vc), ("server", vs)):
                if vw["suite"] != offer["suite"]:
                    sa = scen.all_suites()
                    same = sa[vw["suite"]].prf == sa[offer["suite"]].prf \
                        if vw["suite"] in sa and offer["suite"] in sa \
                        else False
                    v("resumed_params", "suite|%s|%s|%s" % (
                        side, "tls13" if ver == (3, 4) else "tls<=1.2",
                        "same_hash" if same else "other_hash"),
                      "resumed with suite %#x, original %#x" %
                      (vw["suite"], offer["suite"]))
                if ver < (3, 4) and vw["ems"] != offer["ems"]:
                    v("resumed_params", "ems|" + side, "EMS %r, original %r"
                      % (vw["ems"], offer["ems"]))
                if ver < (3, 4) and vw["etm"] != offer["etm"]:
                    v("resumed_params", "etm|" + side, "EtM %r, original %r"
                      % (vw["etm"], offer["etm"]))
            if (vs["sni"] or None) != (offer["sni"] or None) and \
                    ver < (3, 4):
                v("resumed_params", "sni", "server name %r, original %r" %
                  (vs["sni"], offer["sni"]))
            if vs["client_chain"] != offer["client_chain"] and ver < (3, 4):
                v("resumed_params", "client_identity", "client identity %r, "
                  "original %r" % (vs["client_chain"],
                                   offer["client_chain"]))
            if offer["client_chain"]:
                probes["client_auth_resumed"] = 1
            if (vc.get("alpn") or None) != (vs.get("alpn") or None):
                v("resumed_params", "alpn|%s" % (
                    "not_offered" if mods.get("alpn_off") else "offered"),
                  "application protocol after resumption: client %r, "
                  "server %r" % (vc.get("alpn"), vs.get("alpn")))
            for f in ("master", "exporter"):
                if vc.get(f) != vs.get(f):
                    # both ends of a resumed connection derive the same
                    # secrets and exported keying material
                    v("resumed_secrets_disagree", "%s|%s|%s" % (
                        f, mech, "tls13" if ver == (3, 4) else "tls<=1.2"),
                      "after resumption the two ends hold different %s: "
                      "client %r, server %r" % (f, vc.get(f), vs.get(f)))
            if vc["resumed"] != vs["resumed"]:
                v("resumed_flag_disagreement", "%s|c=%s,s=%s" % (
                    mech, vc["resumed"], vs["resumed"]),
                  "connection.resumed: client %s, server %s (wire: resumed)"
                  % (vc["resumed"], vs["resumed"]))
        if soft and "offered suites changed" in soft and info["ok"]:
            pass
    else:
        if info["ok"]:
            probes["fallback_full"] = 1
            if info["view_c"]["resumed"] or info["view_s"]["resumed"]:
                v("resumed_flag_disagreement", "full|%s" % mech,
                  "full handshake on the wire but resumed flag set: "
                  "client %s server %s" % (info["view_c"]["resumed"],
                                           info["view_s"]["resumed"]))
        else:
            if unsure and not reasons:
                # at the expiry / eviction boundary the server may decline
                reasons = ["possibly expired or evicted (boundary)"]
            if reasons and not soft:
                from sim.trace import where
                e = info["oc"].exc if info["oc"].kind == "exc" else \
                    info["os"].exc
                v("fallback_broken", "%s|%s|%s" % (
                    mech, reasons[0], type(e).__name__),
                  "offered state must be ignored (%s) and a full handshake "
                  "must complete, but client=%r server=%r (%s)" %
                  ("; ".join(reasons), info["oc"].exc, info["os"].exc, ctx))
            elif not reasons and not soft:
                e = info["oc"].exc if info["oc"].kind == "exc" else \
                    info["os"].exc
                v("resume_attempt_failed", "%s|%s|%s|%s" % (
                    mech, type(e).__name__, getattr(e, "description", ""),
                    "srp" if info["pair"].scen.get("flavour") == "srp"
                    else "cert"),
                  "honest resumption attempt broke the handshake: client=%r "
                  "server=%r (%s)" % (info["oc"].exc, info["os"].exc, ctx))


def shared_session_jobs(base_seed):
    """Two connections that share one session are open at the same time
    (the second resumed from the first); they end in every order and every
    way; then the session is offered once more.  Enumerated skeleton, passed
    as preset choice streams."""
    jobs = []
    i = 0
    for ver in (0, 2, 3):                 # TLS 1.2 / 1.0 / 1.1
        for tick in (1, 0):               # session ID / RFC 5077 ticket
            for fl in (0, 1):             # without / with client auth
                for first in (0, 1):
                    for how1 in range(4):
                        for how2 in range(4):
                            jobs.append({
                                "seed": base_seed * 1000003 + 900000 + i,
                                "fam": "shared", "preset": {
                                    "h.n": [2], "h.kind": [0, 9, 9, 0],
                                    "h.ver": [ver], "h.fl": [fl, fl, fl],
                                    "A.tick": [tick], "h.end": [5, 5, 0],
                                    "h.offerheld": [1, 0],
                                    "h.rel": [first, 0],
                                    "h.relhow": [how1, how2]}})
                            i += 1
    return jobs


def plan(tier, base_seed):
    n = {"quick": 2500, "thorough": 300000}[tier]
    jobs = [{"seed": base_seed * 1000003 + i} for i in range(n)]
    jobs += shared_session_jobs(base_seed)
    for j in jobs[:3]:
        j["keep"] = True
    return jobs
