"""C07 - tlslite-ng interoperates with an independent TLS implementation
(OpenSSL through the stdlib ssl module, in-process over MemoryBIO)."""

import hashlib
import json

from sim import kernel
kernel.boot()
from sim import nodes, scen, net, loop, ossl, script as sim_script  # noqa

ID = "C07"
LEVEL = "exploration"
RULE = ("job = seed (+ optional grid cell (role, version, suite)) -> tlslite "
        "client vs OpenSSL server or OpenSSL client vs tlslite server; "
        "version 1.0-1.3; every suite both implement (TLS<=1.2 forced on "
        "the OpenSSL side with set_ciphers, TLS 1.3 through tlslite's "
        "cipherNames); group (set_ecdh_curve / eccCurves, keyShares incl. "
        "HRR-forcing mismatches); server key RSA / RSA-PSS / ECDSA "
        "P-256/384/521 / Ed25519 / Ed448 / DSA; client auth; ALPN; EtM / "
        "EMS / ticket options; session-ID, ticket and TLS 1.3 PSK "
        "resumption; payloads with boundary-biased sizes in both "
        "directions; random chunking / would-blocks on the tlslite side.  "
        "Oracle: both complete; OpenSSL's cipher() id == tlslite's "
        "session.cipherSuite, version(), selected_alpn_protocol(), "
        "session_reused vs connection.resumed agree; data intact in both "
        "directions.  distinct = digest(configuration); non-trivial = both "
        "sides completed and exchanged data"
        ' Also version skew (tlslite supports more than the foreign peer negotiates) and a volume cell of TLS 1.2 DHE handshakes (value-dependent secrets).  Violating runs are replayed exactly against the recorded OpenSSL peer (tape).'
        ' The OpenSSL peer may also support more than tlslite (TLS 1.3 capable peer, tlslite capped at 1.2).')
LEVEL_TEXT = ("Grid over (role, version, shared suite) in the quick tier plus "
              "seeded random configurations; OpenSSL is a real, independent "
              "implementation, so a bug that tlslite's client and server "
              "share (wrong label, nonce, padding) cannot hide.")
LEVEL_NOTE = ("OpenSSL's RNG cannot be seeded through the ssl module: wire "
              "bytes differ between a run and its replay; configuration and "
              "schedule replay exactly and the oracle only looks at outcome "
              "tuples (the determinism self-test compares those).  Python's "
              "ssl exposes no PSK/SRP callbacks, no signature-algorithm "
              "list, no record_size_limit, no TLS 1.3 suite selection: those "
              "dimensions are outside this check.  OpenSSL 3.0 here has no "
              "RC4/3DES/MD5/SSLv3.")
BUDGET = {"quick": 300, "thorough": 1500}
CHUNK = 4
DETERMINISM = {"quick": 4, "thorough": 20}
PROBES = ["tlslite_client", "tlslite_server", "tls10", "tls11", "tls12",
          "tls13", "client_auth", "alpn", "resumed", "hrr", "ecdsa", "eddsa",
          "dsa", "rsapss", "ccm", "chacha", "cbc_etm", "big_payload",
          "version_skew", "dhe_tls12_volume", "peer_supports_more"]
COMPONENTS_REAL = ["tlslite (client and server)", "OpenSSL 3.0.20 via "
                   "ssl.SSLObject + MemoryBIO (foreign implementation)"]
COMPONENTS_STUB = ["socket between them (FakeSocket/Pipe)",
                   "tlslite's os.urandom / clock"]
ASSUMPTIONS = ["OpenSSL randomness is real (not simulated)"]

VERS = [(3, 3), (3, 4), (3, 1), (3, 2)]
SKEYS = ["rsa", "ecdsa", "ecdsa384", "ecdsa521", "ed25519", "ed448", "dsa",
         "rsapss"]
OSSL_CURVE = {"secp256r1": "prime256v1", "secp384r1": "secp384r1",
              "secp521r1": "secp521r1", "x25519": "X25519", "x448": "X448"}


def shared_suites(ver):
    tab = ossl.cipher_table()
    out = []
    for sid in scen.negotiable(ver):
        s = scen.all_suites()[sid]
        if sid not in tab:
            continue
        if s.kx == "srp":
            continue      # no SRP callbacks in the ssl module
        out.append(sid)
    return out


def plan(tier, base_seed):
    jobs = []
    i = 0
    for role in ("tc", "ts"):
        for ver in VERS:
            for sid in shared_suites(ver):
                jobs.append({"seed": base_seed * 1000003 + i,
                             "cell": [role, list(ver), sid]})
                i += 1
    n = {"quick": 250, "thorough": 200000}[tier]
    for k in range(n):
        jobs.append({"seed": base_seed * 1000003 + 100000 + k})
    # TLS <= 1.2 strips leading zero octets from the finite-field DH shared
    # secret, TLS 1.3 does not: the two implementations only disagree when
    # the top octet of g^xy is zero (1 in 256), so this cell needs volume
    m = {"quick": 1200, "thorough": 40000}[tier]
    dhe = [x for x in (0x009e, 0x0033) if x in shared_suites((3, 3))]
    for k in range(m if dhe else 0):
        jobs.append({"seed": base_seed * 1000003 + 300000 + k,
                     "cell": [["tc", "ts"][k % 2], [3, 3],
                              dhe[(k // 2) % len(dhe)]],
                     "volume": True})
    for j in jobs[:3]:
        j["keep"] = True
    return jobs


def run(job, streams=None):
    seed = job["seed"]
    ch = kernel.Chooser(seed=seed) if streams is None else \
        kernel.Chooser(streams=streams)
    cell = job.get("cell")
    if cell:
        role, ver, sid = cell[0], tuple(cell[1]), cell[2]
    else:
        role = ["tc", "ts"][ch.draw(2, "cfg.role")]
        ver = VERS[ch.draw(4, "cfg.ver")]
        pool = shared_suites(ver)
        sid = pool[ch.draw(len(pool), "cfg.suite")]
    suite = scen.all_suites()[sid]
    viol = []
    probes = {"tlslite_client" if role == "tc" else "tlslite_server": 1,
              {(3, 1): "tls10", (3, 2): "tls11", (3, 3): "tls12",
               (3, 4): "tls13"}[ver]: 1}
    # server key
    if suite.tls13:
        skey = SKEYS[ch.draw(len(SKEYS), "cfg.skey")]
        if skey == "dsa":
            skey = "rsa"
    elif suite.auth == "rsa":
        skey = ["rsa", "rsapss"][ch.draw(3, "cfg.skey") == 1] \
            if ver >= (3, 3) and suite.kx != "rsa" else "rsa"
    elif suite.auth == "ecdsa":
        pool = ["ecdsa", "ecdsa384", "ecdsa521"]
        if ver >= (3, 3):
            pool += ["ed25519", "ed448"]
        skey = pool[ch.draw(len(pool), "cfg.skey")]
    elif suite.auth == "dsa":
        skey = "dsa"
    else:
        skey = None
    for k_, p_ in (("ecdsa", "ecdsa"), ("ed", "eddsa"), ("dsa", "dsa"),
                   ("rsapss", "rsapss")):
        if skey and skey.startswith(k_):
            probes[p_] = 1
    if "ccm" in suite.cipher:
        probes["ccm"] = 1
    if "chacha" in suite.cipher:
        probes["chacha"] = 1
    opt = ch.draw(8, "cfg.opt")
    cauth = opt == 1 and skey is not None
    alpn = opt == 2
    resume = opt in (3, 4)
    etm = ch.draw(3, "cfg.etm") != 1
    ems = ch.draw(4, "cfg.ems") != 1
    curve = ["", "secp256r1", "secp384r1", "x25519", "secp521r1", "x448"][
        ch.draw(6, "cfg.curve")]
    if skey and skey.startswith("ecdsa"):
        # the client's groups must cover the certificate's curve
        curve = {"ecdsa": "secp256r1", "ecdsa384": "secp384r1",
                 "ecdsa521": "secp521r1"}[skey] if curve else ""
    hrr = ver == (3, 4) and ch.draw(4, "cfg.hrr") == 1
    tset = {"minVersion": list(ver), "maxVersion": list(ver),
            "useEncryptThenMAC": etm, "useExtendedMasterSecret": ems}
    if ver < (3, 3) and ch.draw(3, "cfg.skew") == 1:
        # tlslite supports more than the foreign peer negotiates (the
        # version in ClientHello / the RSA premaster is then not the
        # negotiated one)
        tset["maxVersion"] = [3, 3]
        probes["version_skew"] = 1
    # ... or the foreign peer supports more than tlslite (a TLS 1.3 capable
    # OpenSSL against a tlslite capped at TLS 1.2)
    over_hi = ver
    if ver == (3, 3) and not job.get("volume") and \
            ch.draw(3, "cfg.oskew") == 1:
        over_hi = (3, 4)
        probes["peer_supports_more"] = 1
    if job.get("volume"):
        probes["dhe_tls12_volume"] = 1
    tset["cipherNames"] = [suite.cipher]
    tset["macNames"] = [suite.mac]
    if suite.kx_setting:
        tset["keyExchangeNames"] = [suite.kx_setting]
    if curve and (suite.kx in ("ecdhe", "tls13")):
        tset["eccCurves"] = [curve]
        tset["keyShares"] = [curve] if not hrr else []
    elif hrr:
        tset["keyShares"] = []
    ctx = ["[role=%s ver=%s suite=%s skey=%s cauth=%s alpn=%s resume=%s "
           "etm=%s ems=%s curve=%s hrr=%s]" % (role, ver, suite.name, skey,
                                              cauth, alpn, resume, etm, ems,
                                              curve, hrr)]

    def v(rule, sig, msg):
        viol.append({"rule": rule, "sig": "%s|%s" % (role, sig),
                     "msg": msg + " " + ctx[0]})

    sim = nodes.new_run(seed, chooser=ch, max_steps=300000)
    tab = ossl.cipher_table()
    oname = tab[sid]["name"]
    cache = None
    from tlslite.api import SessionCache
    outcome = []
    sess_t = None
    sess_o = None
    nconn = 2 if resume else 1
    done_data = False
    octx = None
    tapes_in = job.get("tape")      # replay against the recorded peer
    tapes = []
    for k in range(nconn):
        link = net.Link(ch, "random", sim.stats, kernel.Budget(30),
                        kernel.Budget(30), names=("c%d" % k, "s%d" % k))
        sim.add_link(link)
        okw = {}
        if ver < (3, 4):
            okw["ciphers"] = oname + ":@SECLEVEL=0"
        if curve and suite.kx in ("ecdhe", "tls13") and curve in OSSL_CURVE:
            okw["curves"] = OSSL_CURVE[curve]
        if alpn:
            okw["alpn"] = ["h2", "http/1.1"] if role == "ts" else \
                ["http/1.1", "h2"]
        try:
            if role == "tc":
                # tlslite client, OpenSSL server
                sc = {"flavour": "cert" if skey else "anon", "cset": tset,
                      "sset": {}, "skey": None}
                if cauth:
                    sc["ckey"] = "rsa"
                if alpn:
                    sc["alpn_c"] = ["h2", "http/1.1"]
                if tapes_in is not None:
                    oep = ossl.ReplayOssl(sim, "s%d" % k, link.ssock,
                                          tapes_in[k])
                else:
                    oep = ossl.OsslEndpoint(
                        sim, "s%d" % k, link.ssock, True, ver, over_hi,
                        key=("server", skey) if skey else None,
                        verify_client="rsa" if cauth else None,
                        no_tickets=(opt == 4), ctx=octx, **okw)
                tapes.append(oep.tape)
                sim.eps.append(oep)
                tep = sim.endpoint("c%d" % k, link.csock)
                pair = _PairLike(sc, tep, None)
                tgen = pair.client_gen(sess_t)
                c_ep, s_ep = tep, oep
            else:
                sc = {"flavour": "cert" if skey else "anon", "cset": {},
                      "sset": dict(tset), "skey": skey}
                if cauth:
                    sc["req_cert"] = True
                if alpn:
                    sc["alpn_s"] = ["http/1.1", "h2"]
                if opt == 3:
                    sc["sset"]["ticketKeys"] = ["55" * 32]
                if cache is None:
                    cache = SessionCache()
                if tapes_in is not None:
                    oep = ossl.ReplayOssl(sim, "c%d" % k, link.csock,
                                          tapes_in[k])
                else:
                    oep = ossl.OsslEndpoint(
                        sim, "c%d" % k, link.csock, False, ver, over_hi,
                        key=("client", "rsa") if cauth else None,
                        session=sess_o, sni=None, ctx=octx, **okw)
                tapes.append(oep.tape)
                sim.eps.append(oep)
                tep = sim.endpoint("s%d" % k, link.ssock)
                pair = _PairLike(sc, None, tep)
                tgen = pair.server_gen(cache if opt != 3 else None)
                c_ep, s_ep = oep, tep
        except (ValueError, Exception) as e:      # noqa
            import ssl as _ssl
            if isinstance(e, _ssl.SSLError):
                # OpenSSL itself refuses this configuration
                return _res(job, ch, sim, viol, probes, False,
                            ["ossl_cfg", str(e)[:60]], ctx[0])
            raise
        octx = oep.ctx
        ot = tep.start(("handshake", "tlslite"), tgen)
        oo = oep.start(("handshake", "openssl"), oep.gen_handshake())
        st = sim.run()
        if ot.kind != "ok" or oo.kind != "ok":
            from sim.trace import where
            e = ot.exc if ot.kind == "exc" else oo.exc
            v("handshake_failed", "%s|%s|%s" % (
                type(e).__name__, getattr(e, "description", getattr(
                    e, "reason", "")), "conn%d" % k),
              "interop handshake #%d failed: tlslite=%r openssl=%r status=%s"
              % (k, ot.exc, oo.exc, st))
            outcome.append(["hsfail", k])
            break
        tconn = tep.conn
        # ---- negotiated parameters
        oc = oep.obj.cipher()
        oid = [i for i, c in tab.items() if c["name"] == oc[0]]
        if not oid or oid[0] != tconn.session.cipherSuite:
            v("suite_mismatch", "id", "OpenSSL says %r, tlslite %#x" %
              (oc, tconn.session.cipherSuite))
        if tconn.session.cipherSuite != sid:
            v("suite_mismatch", "forced", "negotiated %#x, forced %#x" %
              (tconn.session.cipherSuite, sid))
        over = ossl.VNAME.get(oep.obj.version())
        if over != tuple(tconn.version):
            v("version_mismatch", "ver", "OpenSSL %r, tlslite %r" %
              (oep.obj.version(), tconn.version))
        if alpn:
            oa = oep.obj.selected_alpn_protocol()
            ta = bytes(tconn.session.appProto).decode() \
                if tconn.session.appProto else None
            if oa != ta:
                v("alpn_mismatch", "alpn", "OpenSSL %r, tlslite %r" %
                  (oa, ta))
            elif oa:
                probes["alpn"] = 1
        if cauth:
            if role == "ts":
                if tconn.session.clientCertChain is None:
                    v("client_auth", "nochain", "tlslite server did not "
                      "record the OpenSSL client's certificate")
                else:
                    probes["client_auth"] = 1
            else:
                if oep.obj.getpeercert(True) is None:
                    v("client_auth", "nochain", "OpenSSL server did not "
                      "get tlslite's client certificate")
                else:
                    probes["client_auth"] = 1
        if k == 1:
            if bool(oep.obj.session_reused) != bool(tconn.resumed):
                v("resumption_mismatch", "flag", "OpenSSL session_reused=%r,"
                  " tlslite resumed=%r" % (oep.obj.session_reused,
                                           tconn.resumed))
            elif tconn.resumed:
                probes["resumed"] = 1
        if hrr:
            probes["hrr"] = 1
        if suite.kind == "cbc" and tconn.encryptThenMAC:
            probes["cbc_etm"] = 1
        # ---- data both ways
        n1 = scen.draw_len(ch, "d.len", cap=40000)
        n2 = 1 + scen.draw_len(ch, "d.len", cap=20000)
        if n1 + n2 > 30000:
            probes["big_payload"] = 1
        d1 = scen.payload(1, 0, n1 + 1)
        d2 = scen.payload(2, 0, n2)
        ops = [(tep, ("write", len(d1)),
                (lambda: tconn.writeAsync(d1))),
               (oep, ("read", len(d1)), oep.gen_read(len(d1))),
               (oep, ("write", len(d2)), oep.gen_write(d2)),
               (tep, ("read", len(d2)),
                (lambda: tconn.readAsync(None, len(d2))))]
        for ep, desc, gf in ops:
            o = ep.start(desc, gf)
            st = sim.run()
            if o.kind != "ok":
                v("data_failed", "%s|%s" % (desc[0], type(o.exc).__name__),
                  "%s %r failed: %r (status %s)" % (ep.name, desc, o.exc,
                                                    st))
                break
            if desc[0] == "read":
                want = d1 if ep is oep else d2
                if bytes(o.value) != want:
                    v("data_corrupt", "oep" if ep is oep else "tep",
                      "%d bytes sent, %d received, equal=%s" %
                      (len(want), len(o.value), bytes(o.value) == want))
        else:
            done_data = True
        # ---- remember sessions for the resumption pass
        if resume and k == 0:
            if role == "tc":
                # TLS 1.3 tickets arrive after the handshake: read them
                sess_t = tconn.session
            else:
                sess_o = oep.obj.session
        # close
        oc_ = tep.start(("close",), lambda: tconn.closeAsync())
        sim.run()
        o2 = oep.start(("close",), oep.gen_close())
        sim.run()
        for ep in (tep, oep):
            if ep.op is not None:
                ep.cancel()
            sim.eps.remove(ep)
        sim.links.remove(link)
        outcome.append(["ok", k, tconn.session.cipherSuite,
                        list(over or ()), bool(tconn.resumed)])
    res = _res(job, ch, sim, viol, probes, done_data and not viol, outcome,
               ctx[0])
    if viol and tapes_in is None:
        # OpenSSL's randomness is real: the replay file carries the recorded
        # peer, so the tlslite side meets exactly the same bytes again
        res["replay_job"] = dict({k_: v_ for k_, v_ in job.items()
                                  if k_ != "keep"}, tape=tapes)
    return res


class _PairLike(nodes.Pair):
    """Reuses Pair.client_gen / server_gen for a single tlslite endpoint."""

    def __init__(self, sc, cep, sep):
        self.scen = sc
        self.c = cep
        self.s = sep
        self.cset = nodes.make_settings(sc.get("cset"))
        self.sset = nodes.make_settings(sc.get("sset"))


def _res(job, ch, sim, viol, probes, nontrivial, outcome, ctx):
    key = hashlib.sha256(ctx.encode()).hexdigest()
    h = hashlib.sha256()
    h.update(json.dumps(outcome, default=str).encode())
    h.update(json.dumps(sorted(x["sig"] for x in viol)).encode())
    h.update(ctx.encode())
    return {"violations": viol, "nontrivial": nontrivial, "key": key,
            "digest": h.hexdigest(), "faults": dict(sim.stats),
            "probes": probes, "steps": sim.steps,
            "order": sim.order.hexdigest(), "states": [ctx[:60]],
            "streams": ch.streams(), "inconclusive": False,
            "sample": {"config": ctx, "outcome": outcome}}
