"""C03 - both ends of a completed handshake agree on everything, within both
policies."""

import hashlib
import json

from sim import kernel
kernel.boot()
from sim import nodes, scen, taps, views, lattice, observe   # noqa: E402

ID = "C03"
LEVEL = "exploration"
RULE = ("job = seed -> (client settings, server settings) drawn independently "
        "from the restriction lattice (versions, cipherNames, macNames, "
        "keyExchangeNames, curves, dhGroups, keyShares, signature hashes / "
        "schemes, key-size window, EtM, EMS/require-EMS, record_size_limit) x "
        "flavour (cert with 8 server key types, client auth, SRP, SRP+cert, "
        "anon DH/ECDH, TLS 1.3 PSK) x ALPN/NPN/SNI; benign random transport. "
        "Oracle: both complete => views equal (version, suite, secrets, "
        "exporter, EMS, EtM, ALPN/NPN, SNI, limits, chains) and every "
        "negotiated parameter read off the wire lies inside each side's raw "
        "settings; a failed handshake fails with a TLS alert.  distinct = "
        "digest(settings pair, flavour); non-trivial = both settings differ "
        "from the defaults in >=1 dimension and the handshake reached a "
        "verdict (completed, or failed with an alert)"
        ' PSK flavour draws psk_modes on both sides; the mode actually used (key_share in ServerHello or not) must lie inside both policies.'
        ' SNI spellings include the FQDN form with a trailing dot and mixed case.')
LEVEL_TEXT = ("Seeded exploration of settings pairs; disjoint and partially "
              "overlapping policies are frequent by construction.  The "
              "containment oracle parses the negotiated suite from its IANA "
              "name and the group / signature scheme from the wire, so it "
              "does not share tlslite's selection tables.")
LEVEL_NOTE = ("Trusted: model/suites.py, sim/observe.py wire parsers, "
              "sim/lattice.py reading of the documented settings semantics. "
              "Dimensions not explored: virtual_hosts, TACK, certificate "
              "compression lists, ML-KEM/ML-DSA (absent), dhParams.")
BUDGET = {"quick": 300, "thorough": 1200}
CHUNK = 8
PROBES = ["both_complete", "both_failed", "one_sided", "tls13", "tls12",
          "legacy", "sslv3", "client_auth", "srp", "anon", "psk",
          "psk_mode_psk_ke", "psk_mode_psk_dhe_ke", "alpn",
          "npn", "sni", "hrr", "ecdhe", "dhe", "rsa_kx", "ems_off", "etm_off",
          "rsl", "no_common_version", "no_common_suite"]
COMPONENTS_REAL = ["tlslite client+server handshakes, HandshakeSettings."
                   "validate, suite/cert/group/signature selection"]
COMPONENTS_STUB = ["socket", "os.urandom", "clock"]
ASSUMPTIONS = ["honest peers; benign transport"]

FLAVS = ["cert", "cert", "cert_cauth", "srp", "anon", "srp_cert", "psk",
         "ecdh_anon"]
SKEYS = ["rsa", "ecdsa", "ecdsa384", "ecdsa521", "ed25519", "ed448", "dsa",
         "rsapss"]


def plan(tier, base_seed):
    n = {"quick": 5000, "thorough": 600000}[tier]
    jobs = [{"seed": base_seed * 1000003 + i} for i in range(n)]
    for j in jobs[:3]:
        j["keep"] = True
    return jobs


def draw_case(ch):
    c = lattice.draw_settings(ch, "c")
    s = lattice.draw_settings(ch, "s")
    lattice.fix_keyshares(c)
    lattice.fix_keyshares(s)
    fl = FLAVS[ch.draw(len(FLAVS), "fl")]
    sc = {"cset": c, "sset": s}
    if fl in ("cert", "cert_cauth"):
        sc["flavour"] = "cert"
        sc["skey"] = SKEYS[ch.draw(len(SKEYS), "skey")]
        if fl == "cert_cauth":
            sc["ckey"] = scen.CLIENT_KEYS[1 + ch.draw(4, "ckey")]
            sc["req_cert"] = True
    elif fl == "srp":
        sc["flavour"] = "srp"
    elif fl == "srp_cert":
        sc["flavour"] = "srp_cert"
        sc["skey"] = "rsa"
    elif fl in ("anon", "ecdh_anon"):
        sc["flavour"] = "anon"
    elif fl == "psk":
        sc["flavour"] = "psk"
        sc["skey"] = "rsa"
        c["pskConfigs"] = [list(scen.PSK_HEX)]
        s["pskConfigs"] = [list(scen.PSK_HEX)]
        # PSK key-exchange mode policies of both sides
        modes = [None, ["psk_ke"], ["psk_dhe_ke"], ["psk_dhe_ke", "psk_ke"]]
        mc = modes[ch.draw(4, "psk.modes_c")]
        ms = modes[ch.draw(4, "psk.modes_s")]
        if mc:
            c["psk_modes"] = mc
        if ms:
            s["psk_modes"] = ms
    o = ch.draw(8, "opt")
    if o == 1:
        sc["alpn_c"] = ["h2", "http/1.1"]
        sc["alpn_s"] = ["http/1.1", "h2"]
    elif o == 2:
        sc["alpn_c"] = ["h2"]
        sc["alpn_s"] = ["spdy"]
    elif o == 3:
        sc["npn_c"] = ["http/1.1", "h2"]
        sc["npn_s"] = ["h2", "http/1.1"]
    elif o == 4:
        # (FQDN spelling with the trailing dot is a valid host name too)
        sc["sni"] = ["host.example", "host.example.", "a.b-c.example",
                     "HOST.Example"][ch.draw(4, "opt.sni")]
    elif o == 5:
        sc["alpn_c"] = ["h2", "http/1.1"]      # server without ALPN
    return sc


def contain(sc, obs, vc, suite, viol_add, pair):
    """Negotiated parameters inside both raw settings."""
    ver = tuple(vc["version"])
    for role, over in (("client", sc["cset"]), ("server", sc["sset"])):
        why = lattice.suite_allowed(suite, over, ver, role)
        if why:
            viol_add("containment", "suite|" + role + "|" + why.split()[0],
                     "negotiated %s in %s but %s settings say: %s" %
                     (suite.name, ver, role, why))
    # group
    gname = None
    ske = obs.get("ske")
    sig = None
    if ver <= (3, 3) and ske and suite.kx in ("ecdhe", "dhe"):
        d = observe.parse_ske(ske[0], suite, ver)
        if "group" in d:
            gname = observe.group_name(d["group"])
        if "dh_p_bits" in d:
            bits = d["dh_p_bits"]
            over = sc["cset"]
            named = "ffdhe%d" % bits in lattice.eff(over, "dhGroups")
            if not named and not lattice.eff(over, "minKeySize") <= bits <= \
                    lattice.eff(over, "maxKeySize"):
                viol_add("containment", "dh_bits|client",
                         "DH prime of %d bits outside the client's key-size "
                         "window" % bits)
        sig = d.get("sig_scheme")
    if ver == (3, 4) and "sh" in obs and "key_share_group" in obs["sh"]:
        gname = observe.group_name(obs["sh"]["key_share_group"])
    if gname is not None:
        for role, over in (("client", sc["cset"]), ("server", sc["sset"])):
            allowed = lattice.eff(over, "eccCurves") + \
                lattice.eff(over, "dhGroups")
            if gname not in allowed:
                viol_add("containment", "group|" + role,
                         "negotiated group %s not enabled in %s settings "
                         "(%s)" % (gname, role, allowed))
    if ver == (3, 4) and obs.get("server_cv"):
        m = obs["server_cv"][0]
        sig = (m[4], m[5])
    if sig is not None:
        fam, hname, pad = observe.scheme_desc(sig)
        for role, over in (("client", sc["cset"]), ("server", sc["sset"])):
            bad = None
            if fam == "rsa":
                if hname not in lattice.eff(over, "rsaSigHashes"):
                    bad = "hash %s not in rsaSigHashes" % hname
                elif pad not in lattice.eff(over, "rsaSchemes"):
                    bad = "padding %s not in rsaSchemes" % pad
            elif fam == "ecdsa":
                if hname not in lattice.eff(over, "ecdsaSigHashes"):
                    bad = "hash %s not in ecdsaSigHashes" % hname
            elif fam == "dsa":
                if hname not in lattice.eff(over, "dsaSigHashes"):
                    bad = "hash %s not in dsaSigHashes" % hname
            elif fam in ("Ed25519", "Ed448"):
                if fam not in lattice.eff(over, "more_sig_schemes"):
                    bad = "%s not in more_sig_schemes" % fam
            elif fam == "unknown":
                bad = "unknown signature scheme %r" % (sig,)
            if bad:
                viol_add("containment", "sigscheme|" + role + "|" +
                         bad.split()[0] + "|" + str(fam),
                         "server signed with %r but %s settings: %s" %
                         (sig, role, bad))
    # peer key sizes
    skey = sc.get("skey")
    if skey and sc["flavour"] in ("cert", "srp_cert", "psk") and \
            vc.get("server_chain"):
        typ, bits, curve, _ = lattice.SERVER_KEY_INFO.get(skey,
                                                          (None, 0, None, 0))
        over = sc["cset"]
        if typ in ("rsa", "dsa", "rsa-pss") and not \
                lattice.eff(over, "minKeySize") <= bits <= \
                lattice.eff(over, "maxKeySize"):
            viol_add("containment", "server_key_bits",
                     "server key of %d bits outside client's window" % bits)
        if typ == "ecdsa" and curve not in lattice.eff(over, "eccCurves") \
                and ver <= (3, 3):
            viol_add("containment", "server_key_curve",
                     "server certificate curve %s not in client's "
                     "eccCurves" % curve)
    if sc.get("ckey") and vc.get("client_chain"):
        bits = {"rsa": 1024, "dsa": 2048}.get(sc["ckey"])
        over = sc["sset"]
        if bits and not lattice.eff(over, "minKeySize") <= bits <= \
                lattice.eff(over, "maxKeySize"):
            viol_add("containment", "client_key_bits",
                     "client key of %d bits outside server's window" % bits)
    # flags
    if ver <= (3, 3):
        if vc.get("ems") and (not lattice.eff(sc["cset"],
                                               "useExtendedMasterSecret") or
                              not lattice.eff(sc["sset"],
                                              "useExtendedMasterSecret")):
            viol_add("containment", "ems", "EMS negotiated although a side "
                     "disabled it")
        if not vc.get("ems") and (
                lattice.eff(sc["cset"], "requireExtendedMasterSecret") or
                lattice.eff(sc["sset"], "requireExtendedMasterSecret")):
            viol_add("containment", "ems_required", "completed without EMS "
                     "although a side requires it")
        if vc.get("etm") and (not lattice.eff(sc["cset"],
                                               "useEncryptThenMAC") or
                              not lattice.eff(sc["sset"],
                                              "useEncryptThenMAC")):
            viol_add("containment", "etm", "EtM negotiated although a side "
                     "disabled it")
    a = vc.get("alpn")
    if a is not None:
        if a not in (sc.get("alpn_c") or []) or \
                a not in (sc.get("alpn_s") or []):
            viol_add("containment", "alpn", "ALPN %r not offered by both" % a)


def run(job, streams=None):
    from tlslite.errors import TLSAlert, TLSAbruptCloseError
    seed = job["seed"]
    ch = kernel.Chooser(seed=seed) if streams is None else \
        kernel.Chooser(streams=streams)
    sc = draw_case(ch)
    viol = []
    probes = {}
    ctx = json.dumps(sc, sort_keys=True)

    def v(rule, sig, msg):
        viol.append({"rule": rule, "sig": sig, "msg": msg + " " + ctx})

    sim = nodes.new_run(seed, chooser=ch, max_steps=100000)
    try:
        pair = nodes.Pair(sim, sc, policy="random",
                          wb_budget=kernel.Budget(10),
                          delay_budget=kernel.Budget(10))
    except ValueError as e:
        return _res(job, ch, sim, None, sc, viol, probes, False, "cfg")
    tc = taps.SendTap(pair.c.conn)
    ts = taps.SendTap(pair.s.conn)
    tc.keep_plain = ts.keep_plain = True
    oc, os_, st = pair.handshake()
    okc, oks = oc.kind == "ok", os_.kind == "ok"
    verdict = False
    for w, o in (("client", oc), ("server", os_)):
        if o.kind == "exc":
            if isinstance(o.exc, ValueError) and not pair_started(o):
                continue
            other = os_ if o is oc else oc
            secondary = isinstance(o.exc, TLSAbruptCloseError) and \
                other.kind == "exc" and not isinstance(other.exc, TLSAlert)
            if not isinstance(o.exc, TLSAlert) and not secondary:
                from sim.trace import where
                v("fails_without_alert", "%s|%s|%s" % (
                    w, type(o.exc).__name__, where(o.exc)),
                  "%s handshake failed with %r instead of a TLS alert" %
                  (w, o.exc))
        elif o.kind == "pending":
            v("liveness", "pending|" + w, "%s handshake never finished "
              "(status %s)" % (w, st))
    if okc and oks:
        probes["both_complete"] = 1
        verdict = True
        vc = views.view(pair.c.conn)
        vs = views.view(pair.s.conn)
        obs = observe.observe(pair, tc, ts)
        for f, a, b in views.disagreements(vc, vs):
            if f == "server_chain" and 11 not in obs["server_msgs"]:
                continue    # PSK: no chain was exchanged
            v("disagreement", f, "client %s=%r, server %s=%r" % (f, a, f, b))
        suite = scen.all_suites().get(vc["suite"])
        ver = tuple(vc["version"])
        if "sh" in obs:
            if obs["sh"]["suite"] != vc["suite"] or \
                    tuple(obs["sh"]["version"]) != ver:
                v("disagreement", "wire_vs_view", "ServerHello says %s/%#x, "
                  "endpoints believe %s/%#x" % (obs["sh"]["version"],
                                                obs["sh"]["suite"], ver,
                                                vc["suite"]))
        if suite is None:
            v("containment", "unknown_suite", "suite %#x" % vc["suite"])
        else:
            contain(sc, obs, vc, suite, v, pair)
            probes[{(3, 4): "tls13", (3, 3): "tls12",
                    (3, 0): "sslv3"}.get(ver, "legacy")] = 1
            probes[{"ecdhe": "ecdhe", "dhe": "dhe", "rsa": "rsa_kx",
                    "srp": "srp", "tls13": "tls13"}.get(suite.kx, "tls13")] = 1
            if suite.auth is None and suite.kx in ("dhe", "ecdhe"):
                probes["anon"] = 1
        if obs.get("hrr"):
            probes["hrr"] = 1
        if vc.get("client_chain"):
            probes["client_auth"] = 1
        if vc.get("alpn"):
            probes["alpn"] = 1
        if vc.get("next_proto"):
            probes["npn"] = 1
        if vc.get("sni"):
            probes["sni"] = 1
        if not vc.get("ems") and ver <= (3, 3):
            probes["ems_off"] = 1
        if suite is not None and suite.kind == "cbc" and not vc.get("etm"):
            probes["etm_off"] = 1
        if vc.get("send_limit") != 16384 or vc.get("recv_limit") != 16384:
            probes["rsl"] = 1
        if sc["flavour"] == "psk" and ver == (3, 4):
            probes["psk"] = 1
            if "sh" in obs and 41 in obs["sh"]["ext"]:
                # the mode actually used: no key_share in ServerHello means
                # PSK-only key establishment
                mode = "psk_dhe_ke" if 51 in obs["sh"]["ext"] else "psk_ke"
                probes["psk_mode_" + mode] = 1
                for side in ("cset", "sset"):
                    allowed = sc[side].get("psk_modes") or \
                        ["psk_dhe_ke", "psk_ke"]
                    if mode not in allowed:
                        v("containment", "psk_mode|%s|%s" % (side, mode),
                          "PSK key exchange mode %s was used, %s allows only "
                          "%s" % (mode, side, allowed))
    elif not okc and not oks:
        probes["both_failed"] = 1
        verdict = all(isinstance(o.exc, TLSAlert) for o in (oc, os_)
                      if o.kind == "exc")
        if not lattice.common_versions(sc["cset"], sc["sset"]):
            probes["no_common_version"] = 1
        else:
            probes["no_common_suite"] = 1
    else:
        probes["one_sided"] = 1
        verdict = True
    nondefault = bool(sc["cset"]) and bool(sc["sset"])
    return _res(job, ch, sim, pair, sc, viol, probes, verdict and nondefault,
                repr((oc.sig(), os_.sig())))


def pair_started(o):
    return o.steps > 0


def _res(job, ch, sim, pair, sc, viol, probes, nontrivial, tag):
    h = hashlib.sha256()
    if pair is not None:
        h.update(bytes(pair.link.c2s.wire_log))
        h.update(bytes(pair.link.s2c.wire_log))
    h.update(tag.encode())
    h.update(json.dumps([x["sig"] for x in viol]).encode())
    key = hashlib.sha256(json.dumps(sc, sort_keys=True).encode()).hexdigest()
    return {"violations": viol, "nontrivial": nontrivial, "key": key,
            "digest": h.hexdigest(), "faults": dict(sim.stats),
            "probes": probes, "steps": sim.steps,
            "order": sim.order.hexdigest(),
            "states": [tag[:60]],
            "streams": ch.streams(), "inconclusive": False,
            "sample": {"scenario": sc}}
