"""C19 - settings validation (purity / idempotence as observed in runs) and
"compatible settings connect"."""

import copy
import hashlib
import json

from sim import kernel
kernel.boot()
from sim import nodes, scen, lattice    # noqa: E402

ID = "C19"
LEVEL = "exploration"
RULE = ("job = seed -> (client settings, server settings) from the restriction "
        "lattice, biased towards overlapping policies, x server credential in "
        "{RSA, ECDSA P-256}.  (a) connect clause: whenever the conservative "
        "predicate lattice.surely_compatible holds (common highest version; a "
        "shared suite whose IANA-parsed components, key exchange, group and "
        "signature scheme are enabled on both sides and usable with the "
        "server key; key sizes inside both windows; EMS requirement "
        "satisfiable) both handshakes must complete.  (b) purity as observed: "
        "the settings objects handed to the handshake are deep-snapshotted "
        "before and compared field by field after; validate(validate(s)) == "
        "validate(s); every cipher implementation named in the result is "
        "loadable.  distinct = digest(settings pair, key); non-trivial = the "
        "predicate held (connect clause exercised)"
        " Session cache / ticket keys / a shared external PSK are drawn next to the lattice, and a second connection between the same settings offers the first one's session: it must connect as well."
        ' Out-of-domain values must make validate() raise; SRP flavour with the client key-size window on / next to the size of the server group.'
        ' PSK options include several identities with explicit and default hashes in either order; SNI on/off.'
        ' PSK key-exchange mode policies on either side (a PSK that cannot be used under them must simply not be used).')
LEVEL_TEXT = ("Seeded exploration over settings pairs.  The connect clause "
              "is judged by a deliberately conservative predicate (says "
              "'don't know' whenever the documented semantics leave room), "
              "so it can miss incompatibilities but does not raise alarms "
              "on legitimately failing pairs.  The pure clause 'rejects every "
              "out-of-domain value with ValueError' has no schedule, peer or "
              "fault in it and is NOT decided here.")
LEVEL_NOTE = ("Trusted: sim/lattice.py's reading of the settings "
              "documentation; model/suites.py.  Only RSA-2048 and ECDSA P-256 "
              "server credentials enter the connect clause.")
BUDGET = {"quick": 300, "thorough": 1200}
CHUNK = 8
PROBES = ["compatible", "compatible_tls13", "compatible_tls12",
          "compatible_legacy", "incompatible", "purity_checked",
          "idempotence_checked", "validate_rejected", "second_connection",
          "second_resumed", "invalid_value_rejected", "srp", "srp_boundary",
          "srp_inside"]
COMPONENTS_REAL = ["HandshakeSettings.validate, client+server handshakes"]
COMPONENTS_STUB = ["socket", "os.urandom", "clock"]
ASSUMPTIONS = ["honest peers, benign transport"]


# values outside the documented domains (handshakesettings.py docstrings /
# error messages); each must make validate() - and therefore every
# handshake entry point - raise ValueError before any I/O
INVALID = [
    ("record_size_limit", 0), ("record_size_limit", 63),
    ("record_size_limit", 2 ** 14 + 2), ("record_size_limit", -1),
    ("minKeySize", 511), ("maxKeySize", 16385), ("maxKeySize", 511),
    ("cipherNames", ["bogus"]), ("macNames", ["bogus"]),
    ("keyExchangeNames", ["bogus"]), ("eccCurves", ["bogus"]),
    ("dhGroups", ["bogus"]), ("rsaSigHashes", ["bogus"]),
    ("ecdsaSigHashes", ["bogus"]), ("rsaSchemes", ["bogus"]),
    ("minVersion", [3, 5]), ("maxVersion", [2, 9]),
    ("useExtendedMasterSecret", 2), ("useEncryptThenMAC", "yes"),
    ("ticket_count", -1), ("ticketLifetime", 0), ("max_early_data", -1),
    ("psk_modes", ["bogus"]), ("certificate_compression_send", ["bogus"]),
    ("certificate_compression_receive", ["bogus"]),
    ("ticketKeys", ["0011223344"]), ("keyShares", ["bogus"]),
    ("defaultCurve", "bogus"), ("ticketCipher", "bogus"),
]


def plan(tier, base_seed):
    n = {"quick": 12000, "thorough": 800000}[tier]
    jobs = [{"seed": base_seed * 1000003 + i} for i in range(n)]
    for j in jobs[:3]:
        j["keep"] = True
    return jobs


def snapshot(hs):
    out = {}
    for k, v in vars(hs).items():
        if callable(v):
            out[k] = ("callable", getattr(v, "__name__", repr(v)))
        else:
            out[k] = copy.deepcopy(v)
    return out


def diff_snap(a, b):
    out = []
    for k in sorted(set(a) | set(b)):
        if k not in a or k not in b or a[k] != b[k]:
            out.append((k, a.get(k), b.get(k)))
    return out


SRP_BITS = 1536      # group of the fixture verifier (sim/creds.py)


def run_srp(job, ch, seed):
    """SRP flavour: the key-size window of the client against the size of the
    server's SRP group, values on and next to the boundaries."""
    viol = []
    probes = {"srp": 1}
    mn = [512, 1023, 1024, SRP_BITS - 1, SRP_BITS, SRP_BITS + 1, 2048][
        ch.draw(7, "srp.min")]
    mx = [8193, SRP_BITS, SRP_BITS - 1, SRP_BITS + 1, 2048, 4096][
        ch.draw(6, "srp.max")]
    ver = [[3, 3], [3, 1], [3, 2]][ch.draw(3, "srp.ver")]
    c = {"minKeySize": mn, "maxKeySize": mx, "minVersion": ver,
         "maxVersion": ver}
    sc = {"flavour": "srp", "cset": c,
          "sset": {"minVersion": ver, "maxVersion": ver}}
    ctx = json.dumps(sc, sort_keys=True)
    sim = nodes.new_run(seed, chooser=ch, max_steps=100000)
    compat = mn <= SRP_BITS <= mx
    valid = mn <= mx
    try:
        pair = nodes.Pair(sim, sc, policy="random",
                          wb_budget=kernel.Budget(10),
                          delay_budget=kernel.Budget(10))
        oc, os_, st = pair.handshake()
    except ValueError:
        pair = None
        oc = os_ = None
    both = oc is not None and oc.kind == "ok" and os_.kind == "ok"
    if compat and valid:
        probes["compatible"] = 1
        probes["srp_boundary" if SRP_BITS in (mn, mx) else "srp_inside"] = 1
        if not both:
            e = None if oc is None else (oc.exc if oc.kind == "exc"
                                         else os_.exc)
            viol.append({"rule": "compatible_did_not_connect",
                         "sig": "srp|%s|%s" % (type(e).__name__, getattr(
                             e, "description", "")),
                         "msg": "the SRP group (%d bits) lies inside the "
                         "client's key-size window [%d, %d] but the "
                         "handshake failed: client=%r server=%r %s" % (
                             SRP_BITS, mn, mx, oc and oc.exc,
                             os_ and os_.exc, ctx)})
    elif valid and both:
        viol.append({"rule": "policy_not_enforced", "sig": "srp|keysize",
                     "msg": "the SRP group (%d bits) lies outside the "
                     "client's key-size window [%d, %d] but the handshake "
                     "completed %s" % (SRP_BITS, mn, mx, ctx)})
    else:
        probes["incompatible"] = 1
    return _res(job, ch, sim, pair, sc, viol, probes, compat and valid,
                "srp:%s:%s" % (mn, mx))


def run(job, streams=None):
    from tlslite.errors import TLSAlert
    seed = job["seed"]
    ch = kernel.Chooser(seed=seed) if streams is None else \
        kernel.Chooser(streams=streams)
    if ch.draw(12, "flav.srp") == 1:
        return run_srp(job, ch, seed)
    # half of the runs: server settings derived from the client's so that
    # overlapping policies are frequent
    c = lattice.draw_settings(ch, "c", legacy=bool(ch.draw(2, "legacy")))
    if ch.draw(2, "mirror"):
        s = dict(c)
        extra = lattice.draw_settings(ch, "s")
        for k in list(extra)[:ch.draw(3, "s.nover")]:
            s[k] = extra[k]
    else:
        s = lattice.draw_settings(ch, "s")
    cap = ch.draw(6, "vcap")
    if cap in (1, 2, 3, 4):
        top = [(3, 3), (3, 2), (3, 1), (3, 3)][cap - 1]
        for d in (c, s):
            if tuple(d.get("maxVersion", (3, 4))) > top:
                d["maxVersion"] = list(top)
            if tuple(d.get("minVersion", (3, 1))) > top:
                d["minVersion"] = list(top)
    lattice.fix_keyshares(c)
    lattice.fix_keyshares(s)
    # session / ticket / PSK options next to the lattice: they add ways to
    # connect, they must never take one away
    if ch.draw(4, "opt.psk") == 1:
        kh = ch.draw(5, "opt.pskh")
        other = ["6f74686572", "5a" * 24, "sha384"]
        if kh <= 1:
            pk = [list(scen.PSK_HEX) + [["sha256", "sha384"][kh]]]
            c["pskConfigs"] = pk
            s["pskConfigs"] = [list(pk[0])]
        elif kh == 2:
            # several identities with different (explicit / default) hashes
            c["pskConfigs"] = [list(other), list(scen.PSK_HEX)]
            s["pskConfigs"] = [list(scen.PSK_HEX)]
        elif kh == 3:
            c["pskConfigs"] = [list(scen.PSK_HEX), list(other)]
            s["pskConfigs"] = [list(other)]
        else:
            c["pskConfigs"] = [list(other), list(scen.PSK_HEX)]
            s["pskConfigs"] = [list(scen.PSK_HEX), list(other)]
    if ch.draw(3, "opt.tick") == 1:
        s["ticketKeys"] = ["77" * 32]
    # PSK key exchange mode policies: a PSK / ticket that cannot be used
    # under them must simply not be used
    pm = ch.draw(6, "opt.pskmodes")
    if pm in (1, 2):
        c["psk_modes"] = [["psk_ke"], ["psk_dhe_ke"]][pm - 1]
    if pm in (2, 3):
        s["psk_modes"] = ["psk_ke"]
    elif pm in (1, 4):
        s["psk_modes"] = ["psk_dhe_ke"]
    second = ch.draw(3, "opt.second") != 2
    use_cache = ch.draw(2, "opt.cache") == 1
    invalid = None
    if ch.draw(10, "opt.invalid") == 1:
        fld, val = INVALID[ch.draw(len(INVALID), "opt.invalidwhich")]
        role_ = ["cset", "sset"][ch.draw(2, "opt.invalidrole")]
        (c if role_ == "cset" else s)[fld] = val
        invalid = (role_, fld, val)
    skey = ["rsa", "ecdsa"][ch.draw(2, "skey")]
    sc = {"cset": c, "sset": s, "flavour": "cert", "skey": skey}
    if ch.draw(4, "alpn") == 1:
        sc["alpn_c"] = ["h2", "http/1.1"]
    if ch.draw(2, "sni") == 1:
        sc["sni"] = "server.example"
    viol = []
    probes = {}
    ctx = json.dumps(sc, sort_keys=True)

    def v(rule, sig, msg):
        viol.append({"rule": rule, "sig": sig, "msg": msg + " " + ctx})

    sim = nodes.new_run(seed, chooser=ch, max_steps=100000)
    # ---- purity / idempotence of validate()
    objs = {}
    for role in ("cset", "sset"):
        hs = nodes.make_settings(sc[role])
        # the caller's lists are the caller's: give it fresh ones
        before = snapshot(hs)
        try:
            out1 = hs.validate()
            if invalid and invalid[0] == role:
                v("invalid_accepted", "%s=%r" % (invalid[1], invalid[2]),
                  "validate() accepted %s = %r, a value outside the "
                  "documented domain" % (invalid[1], invalid[2]))
        except ValueError:
            probes["validate_rejected"] = 1
            if invalid and invalid[0] == role:
                probes["invalid_value_rejected"] = 1
            out1 = None
        after = snapshot(hs)
        for k, a, b in diff_snap(before, after):
            v("validate_mutates", k, "validate() changed %s of its input "
              "from %r to %r" % (k, a, b))
        probes["purity_checked"] = 1
        if out1 is not None:
            s1 = snapshot(out1)
            try:
                out2 = out1.validate()
            except ValueError as e:
                v("validate_not_idempotent", "raises",
                  "validate() rejects its own output: %s" % e)
                out2 = None
            if out2 is not None:
                for k, a, b in diff_snap(s1, snapshot(out2)):
                    v("validate_not_idempotent", k,
                      "validate(validate(s)).%s = %r but validate(s).%s = %r"
                      % (k, b, k, a))
                for k, a, b in diff_snap(s1, snapshot(out1)):
                    v("validate_mutates", "output|" + k,
                      "second validate() changed its input's %s" % k)
                probes["idempotence_checked"] = 1
                from tlslite.utils import cryptomath
                for impl in out1.cipherImplementations:
                    ok = impl == "python" or \
                        (impl == "openssl" and cryptomath.m2cryptoLoaded) or \
                        (impl == "pycrypto" and cryptomath.pycryptoLoaded)
                    if not ok:
                        v("unsupported_in_result", impl, "validated settings "
                          "name cipher implementation %r which is not "
                          "available" % impl)
        objs[role] = hs
    # ---- connect clause
    compat, why = lattice.surely_compatible(c, s, "cert", skey)
    if compat and probes.get("validate_rejected"):
        compat, why = False, "settings do not validate (precondition)"
    try:
        pair = nodes.Pair(sim, sc, policy="random",
                          wb_budget=kernel.Budget(10),
                          delay_budget=kernel.Budget(10))
    except ValueError as e:
        if compat:
            v("compatible_rejected", "ValueError", "settings predicted "
              "compatible (%s) were rejected: %s" % (why, e))
        return _res(job, ch, sim, None, sc, viol, probes, False, "cfg")
    snap_c = snapshot(pair.cset)
    snap_s = snapshot(pair.sset)
    cache = None
    if use_cache:
        from tlslite.api import SessionCache
        with kernel.Node("cache", seed):
            cache = SessionCache()
    oc, os_, st = pair.handshake(cache=cache)
    for role, before, obj in (("client", snap_c, pair.cset),
                              ("server", snap_s, pair.sset)):
        for k, a, b in diff_snap(before, snapshot(obj)):
            v("handshake_mutates_settings", "%s|%s" % (role, k),
              "%s settings.%s changed from %r to %r during the handshake" %
              (role, k, a, b))
    both = oc.kind == "ok" and os_.kind == "ok"
    if compat:
        probes["compatible"] = 1
        probes["compatible_" + ("tls13" if why == "tls13" else
                                "tls12" if "(3, 3)" in why else
                                "legacy")] = 1
        if not both:
            from sim.trace import where
            e = oc.exc if oc.kind == "exc" else os_.exc
            detail = ""
            smsg = str(getattr(os_.exc, "message", "") or os_.exc or "")
            if "No common signature algorithms" in smsg and \
                    "legacy:(3, 3)" not in why and why != "tls13":
                detail = "|sigalgs_applied_below_tls12"
            v("compatible_did_not_connect",
              "%s|%s|%s%s" % (why.split(":")[0], type(e).__name__,
                              getattr(e, "description", ""), detail),
              "predicate says surely compatible (%s) but client=%r "
              "server=%r" % (why, oc.exc, os_.exc))
    else:
        probes["incompatible"] = 1
    if both and second:
        # the same two configurations meet again, the client offering what
        # the first connection left it with (session ID / ticket / PSK)
        from sim import script as sim_script
        sim_script.run_script(
            sim, {"c": pair.c, "s": pair.s},
            [["s", "w"], ["c", "r"], ["c", "close"], ["s", "r0"]],
            lambda ep, op: {
                "w": lambda: ep.conn.writeAsync(b"first"),
                "r": lambda: ep.conn.readAsync(None, 5),
                "r0": lambda: ep.conn.readAsync(None, 1),
                "close": lambda: ep.conn.closeAsync()}[op[1]])
        session = pair.c.conn.session
        sim.links.remove(pair.link)
        sim.eps.remove(pair.c)
        sim.eps.remove(pair.s)
        pair2 = nodes.Pair(sim, sc, policy="random",
                           wb_budget=kernel.Budget(10),
                           delay_budget=kernel.Budget(10),
                           cnode=kernel.Node("c2", seed),
                           snode=kernel.Node("s2", seed))
        try:
            oc2, os2, st2 = pair2.handshake(session=session, cache=cache)
        except ValueError:
            oc2 = os2 = None        # API-level refusal of the session
        if oc2 is not None:
            probes["second_connection"] = 1
            if oc2.kind == "ok" and pair2.c.conn.resumed:
                probes["second_resumed"] = 1
            if not (oc2.kind == "ok" and os2.kind == "ok"):
                e = oc2.exc if oc2.kind == "exc" else os2.exc
                from sim.trace import where
                msg_ = str(getattr(e, "message", "") or "")
                v("compatible_did_not_connect",
                  "second|%s|%s|%s|%s" % (
                      "tls13" if tuple(pair.c.conn.version) == (3, 4) else
                      "legacy", type(e).__name__,
                      getattr(e, "description", ""),
                      "declined_ticket" if "Expecting new_session_ticket"
                      in msg_ else where(e)),
                  "the first connection succeeded, the second one between "
                  "the same settings (client offering its session) failed: "
                  "client=%r server=%r" % (oc2.exc, os2.exc))
    return _res(job, ch, sim, pair, sc, viol, probes, compat,
                repr((oc.sig(), os_.sig(), why)))


def _res(job, ch, sim, pair, sc, viol, probes, nontrivial, tag):
    h = hashlib.sha256()
    if pair is not None:
        h.update(bytes(pair.link.c2s.wire_log))
        h.update(bytes(pair.link.s2c.wire_log))
    h.update(tag.encode())
    h.update(json.dumps([x["sig"] for x in viol]).encode())
    key = hashlib.sha256(json.dumps(sc, sort_keys=True).encode()).hexdigest()
    return {"violations": viol, "nontrivial": nontrivial, "key": key,
            "digest": h.hexdigest(), "faults": dict(sim.stats),
            "probes": probes, "steps": sim.steps,
            "order": sim.order.hexdigest(), "states": [tag[-40:]],
            "streams": ch.streams(), "inconclusive": False,
            "sample": {"scenario": sc}}
