"""C11 (wire-uniformity clause) - a server doing RSA key exchange behaves
identically on the wire for every malformed encrypted premaster secret."""

import hashlib
import json

from sim import kernel
kernel.boot()
from sim import nodes, scen, taps, byz, creds, net      # noqa: E402

ID = "C11"
LEVEL = "exploration"
RULE = ("job = seed -> scenario (SSLv3..TLS1.2, every RSA-key-exchange "
        "suite, +- EtM, +- EMS, +- client auth, client max version above or "
        "equal to the negotiated one); the consistent byzantine client "
        "replaces encryptedPreMasterSecret by a member of each defect class "
        "in turn (same seed => same server randomness) and keeps using the "
        "plaintext it sent as premaster (a consistent liar); bad first byte; bad block type; zero inside the "
        "first 8 padding bytes; no separator; separator too early; payload "
        "length 0 / 1 / 47 / 49 / maximal; wrong version bytes (+1, -1, "
        "0x0000, 0xffff); and the publicly invalid ones (value >= n, "
        "shorter / longer ciphertext).  Oracle: the server's outgoing trace "
        "after ClientKeyExchange - (record type, record length) sequence, "
        "alert level/description from the send tap, number of records the "
        "server had consumed when it answered - is identical for all "
        "secretly-invalid classes; every class fails.  distinct = "
        "digest(scenario); non-trivial = >= 10 classes were delivered and "
        "compared"
        ' Boundary ciphertexts (empty, 0, 1, n-1, n, all-ff, length-prefixed); publicly invalid ciphertexts take part in the uniformity comparison (only the consumed byte count may differ).'
        ' The client may be TLS 1.3 capable (supported_versions in its hello, legacy version 1.2) against a TLS <= 1.2 RSA server.')
LEVEL_TEXT = ("Seeded search over scenarios, exhaustive over the defect "
              "class list per scenario; determinism turns 'identical "
              "behaviour' into a byte comparison of traces.  Only the wire "
              "clause is decided: 'RSAKey.decrypt is a total deterministic "
              "function whose synthetic-message length is independent of "
              "the defect' is a pure function property and NOT decided by "
              "this family; timing is not measured (Python is not constant "
              "time).")
LEVEL_NOTE = ("Trusted: interposer; EM blocks are built and RSA-encrypted "
              "with the server's public key by the harness (pow).")
BUDGET = {"quick": 300, "thorough": 1200}
CHUNK = 4
CLASSES = ["bad_first_byte", "bad_block_type", "zero_in_ps",
           "no_separator", "sep_early", "len0", "len1", "len47", "len49",
           "lenmax", "ver_plus", "ver_below", "ver_between", "ver_negotiated",
           "ver_zero", "ver_ffff",
           "ge_n", "short_ct", "long_ct", "ct_empty", "ct_eq_n",
           "ct_n_minus_1", "ct_zero", "ct_one", "ct_all_ff",
           "len_prefixed_ct"]
PUBLIC = ()
PROBES = [c for c in CLASSES] + ["sslv3", "tls10", "tls11", "tls12", "client_auth", "etm",
                    "no_ems", "client_max_higher", "client_offers_tls13"]
COMPONENTS_REAL = ["tlslite server: RSAKeyExchange.processClientKeyExchange,"
                   " RSAKey.decrypt (implicit rejection), Finished handling"]
COMPONENTS_STUB = ["socket", "os.urandom", "clock", "byzantine client"]
ASSUMPTIONS = ["wire behaviour only; no timing"]


def plan(tier, base_seed):
    n = {"quick": 260, "thorough": 60000}[tier]
    jobs = [{"seed": base_seed * 1000003 + i} for i in range(n)]
    for j in jobs[:3]:
        j["keep"] = True
    return jobs


def craft(cls, n, e, k, chver, rng, negver=None):
    """Return (ciphertext bytes, premaster secret the client keeps using)
    for defect class cls.  The client is *consistent*: it derives its keys
    from the very plaintext it put into the (malformed) encryption block, so
    a server that wrongly accepted the block would complete the handshake."""
    used = [None]
    def nz(cnt):
        return bytes(rng.randrange(1, 256) for _ in range(cnt))

    def pms(v0=None, v1=None, ln=48):
        b = bytearray(rng.randrange(256) for _ in range(ln))
        if ln >= 2:
            b[0] = chver[0] if v0 is None else v0
            b[1] = chver[1] if v1 is None else v1
        used[0] = bytes(b)
        return bytes(b)

    def em(m, first=0, bt=2, ps=None, sep=True):
        pslen = k - 3 - len(m) if sep else k - 2 - len(m)
        p = nz(pslen) if ps is None else ps
        return bytes([first, bt]) + p + (b"\x00" if sep else b"") + m
    if cls == "bad_first_byte":
        E = em(pms(), first=1)
    elif cls == "bad_block_type":
        E = em(pms(), bt=1)
    elif cls == "zero_in_ps":
        ps = bytearray(nz(k - 3 - 48))
        ps[rng.randrange(8)] = 0
        E = em(pms(), ps=bytes(ps))
    elif cls == "no_separator":
        E = bytes([0, 2]) + nz(k - 2)
        used[0] = E[-48:]
    elif cls == "sep_early":
        ps = bytearray(nz(k - 3 - 48))
        ps[rng.randrange(1, 7)] = 0
        E = em(pms(), ps=bytes(ps))
    elif cls == "len0":
        E = em(b"")
    elif cls == "len1":
        E = em(b"\x03")
    elif cls == "len47":
        E = em(pms(ln=47))
    elif cls == "len49":
        E = em(pms(ln=49))
    elif cls == "lenmax":
        E = em(pms(ln=k - 11))
    elif cls == "ver_plus":
        E = em(pms(chver[0], (chver[1] + 1) & 0xff))
    elif cls == "ver_below":
        lo = min(chver, negver)
        E = em(pms(lo[0], lo[1] - 1 if lo[1] > 0 else 9))
    elif cls == "ver_between":
        if chver[1] - negver[1] < 2:
            return None, None
        E = em(pms(chver[0], negver[1] + 1 + rng.randrange(
            chver[1] - negver[1] - 1)))
    elif cls == "ver_negotiated":
        if tuple(negver) == tuple(chver):
            return None, None
        E = em(pms(negver[0], negver[1]))
    elif cls == "ver_zero":
        E = em(pms(0, 0))
    elif cls == "ver_ffff":
        E = em(pms(0xff, 0xff))
    elif cls == "ge_n":
        # c + n decrypts to the same block if the range check is missing
        c = pow(int.from_bytes(em(pms()), "big"), e, n)
        if (c + n).bit_length() <= 8 * k:
            return (c + n).to_bytes(k, "big"), used[0]
        return b"\xff" * k, used[0]
    elif cls == "short_ct":
        c = pow(int.from_bytes(em(pms()), "big"), e, n)
        return c.to_bytes(k, "big")[1:], used[0]
    elif cls == "long_ct":
        c = pow(int.from_bytes(em(pms()), "big"), e, n)
        return b"\x00" + c.to_bytes(k, "big"), used[0]
    elif cls == "len_prefixed_ct":
        # a well-formed ciphertext behind a two-octet length (the TLS
        # encoding used where the raw SSLv3 one is expected, or used twice)
        c = pow(int.from_bytes(em(pms()), "big"), e, n)
        return k.to_bytes(2, "big") + c.to_bytes(k, "big"), used[0]
    elif cls == "ct_empty":
        pms()
        return b"", used[0]
    elif cls == "ct_eq_n":
        pms()
        return n.to_bytes(k, "big"), used[0]
    elif cls == "ct_n_minus_1":
        pms()
        return (n - 1).to_bytes(k, "big"), used[0]
    elif cls == "ct_zero":
        pms()
        return bytes(k), used[0]
    elif cls == "ct_one":
        pms()
        return (1).to_bytes(k, "big"), used[0]
    elif cls == "ct_all_ff":
        pms()
        return b"\xff" * k, used[0]
    else:
        raise ValueError(cls)
    assert len(E) == k, (cls, len(E), k)
    c = pow(int.from_bytes(E, "big"), e, n)
    return c.to_bytes(k, "big"), used[0]


def one_run(seed, sc, cls, chver_holder):
    import random
    sim = nodes.new_run(seed, chooser=kernel.Chooser(streams={}),
                        max_steps=100000, sched="first")
    pair = nodes.Pair(sim, sc, policy="ideal")
    chain, _ = creds.load("server", "rsa")
    pub = chain.getEndEntityPublicKey()
    n, e = int(pub.n), int(pub.e)
    k = (n.bit_length() + 7) // 8
    rng = random.Random("c11:%d:%s" % (seed, cls))
    fired = []

    def rule(msg, c):
        if type(msg).__name__ == "ClientHello":
            chver_holder[0] = tuple(msg.client_version)
        return None
    byz.Interposer(pair.c.conn, [rule])
    from tlslite.keyexchange import RSAKeyExchange
    orig_psk = RSAKeyExchange.__dict__["processServerKeyExchange"]
    cnode = pair.c.node

    def processServerKeyExchange(self, srvPublicKey, serverKeyExchange):
        if kernel.CTX.node is not cnode or cls is None:
            return orig_psk(self, srvPublicKey, serverKeyExchange)
        ct, pm = craft(cls, n, e, k, tuple(self.clientHello.client_version),
                       rng, tuple(self.serverHello.server_version))
        if ct is None:
            return orig_psk(self, srvPublicKey, serverKeyExchange)
        self.encPremasterSecret = bytearray(ct)
        fired.append(cls)
        return bytearray(pm if pm is not None else bytes(48))
    RSAKeyExchange.processServerKeyExchange = processServerKeyExchange
    st = taps.SendTap(pair.s.conn)
    mt = taps.MsgTap(pair.s.conn)
    try:
        oc, os_, status = pair.handshake()
    finally:
        RSAKeyExchange.processServerKeyExchange = orig_psk
    # server's outgoing records after the client's CKE was on the wire: the
    # server sends nothing between ServerHelloDone and its reaction, so the
    # records after the ServerHelloDone flight are the reaction
    rp = net.RecordParser()
    recs = rp.feed(bytes(pair.link.s2c.sent_log))
    # index of ServerHelloDone record
    idx = 0
    for i, r in enumerate(recs):
        if r[0] == 22 and r[2][:1] == b"\x0e":
            idx = i + 1
    reaction = [(r[0], len(r[2])) for r in recs[idx:]]
    alerts = [(a.get("level"), a.get("description")) for a in mt.alerts()]
    consumed = pair.link.c2s.nread
    trace = {"reaction": reaction, "alerts": alerts,
             "server": os_.sig() if os_.kind != "pending" else "pending",
             "consumed": consumed, "status": status}
    return trace, bool(fired), os_.kind == "ok", oc.kind == "ok"


def run(job, streams=None):
    seed = job["seed"]
    ch = kernel.Chooser(seed=seed) if streams is None else \
        kernel.Chooser(streams=streams)
    ver = [(3, 3), (3, 1), (3, 2), (3, 0)][ch.draw(4, "cfg.ver")]
    pool = [s for s in scen.negotiable(ver)
            if scen.all_suites()[s].kx == "rsa"
            and scen.all_suites()[s].cipher != "3des"]
    sid = pool[ch.draw(len(pool), "cfg.suite")]
    sc = scen.suite_scenario(sid, ver, etm=ch.draw(2, "cfg.etm") == 0)
    probes = {{(3, 0): "sslv3", (3, 1): "tls10", (3, 2): "tls11",
               (3, 3): "tls12"}[ver]: 1}
    if ch.draw(3, "cfg.ems") == 1:
        sc["cset"]["useExtendedMasterSecret"] = False
        probes["no_ems"] = 1
    if ch.draw(3, "cfg.cauth") == 1:
        sc["ckey"] = "rsa"
        sc["req_cert"] = True
        probes["client_auth"] = 1
    cm = ch.draw(3, "cfg.cmax")
    if cm == 1 and ver < (3, 3):
        # client offers more than the server will pick: client_hello version
        # differs from the negotiated version
        sc["cset"]["maxVersion"] = [3, 3]
        probes["client_max_higher"] = 1
    elif (cm == 2 and ver >= (3, 1)) or (cm == 1 and ver == (3, 3)):
        # (supported_versions cannot name SSLv3: not with an SSLv3 server)
        # a TLS 1.3 capable client: its hello carries supported_versions
        # while the legacy version (the one the premaster secret must
        # repeat) stays at TLS 1.2
        sc["cset"]["maxVersion"] = [3, 4]
        probes["client_offers_tls13"] = 1
    if sc["cset"].get("useEncryptThenMAC"):
        probes["etm"] = 1
    viol = []
    ctx = "[scenario=%s]" % json.dumps(sc, sort_keys=True)

    def v(rule, sig, msg):
        viol.append({"rule": rule, "sig": sig, "msg": msg + " " + ctx})
    holder = [tuple(ver)]
    traces = {}
    faults = {}
    base, f, sok, cok = one_run(seed, sc, None, holder)
    if not (sok and cok):
        v("honest_failed", "rsa_kx", "honest RSA key exchange failed: %r" %
          (base,))
        return _res(job, ch, sc, viol, probes, False, {})
    for cls in CLASSES:
        tr, fired, sok, cok = one_run(seed, sc, cls, holder)
        if not fired:
            continue
        probes[cls] = 1
        faults["premaster_" + cls] = 1
        traces[cls] = tr
        if sok:
            v("malformed_premaster_accepted", cls, "server completed the "
              "handshake for defect class %s" % cls)
            continue
    secret = {c: t for c, t in traces.items() if c not in PUBLIC
              and c != "ver_negotiated"}
    ref_cls = "bad_block_type" if "bad_block_type" in secret else \
        (sorted(secret)[0] if secret else None)
    if ref_cls:
        ref = secret[ref_cls]
        for c, t in sorted(secret.items()):
            if t != ref:
                diff = [k for k in ref if ref[k] != t[k]]
                if c in ("short_ct", "long_ct", "ct_empty",
                         "len_prefixed_ct"):
                    # the ClientKeyExchange itself has another length
                    diff = [k for k in diff if k != "consumed"]
                if not diff:
                    continue
                v("oracle", "%s|%s" % (c, ",".join(diff)),
                  "server's wire behaviour for class %s differs from class "
                  "%s in %s: %r vs %r" % (c, ref_cls, diff,
                                          {k: t[k] for k in diff},
                                          {k: ref[k] for k in diff}))
    return _res(job, ch, sc, viol, probes, len(traces) >= 10, traces, faults)


def _res(job, ch, sc, viol, probes, nontrivial, traces, faults=None):
    key = hashlib.sha256(json.dumps(sc, sort_keys=True).encode()).hexdigest()
    h = hashlib.sha256()
    h.update(json.dumps(traces, sort_keys=True, default=str).encode())
    h.update(json.dumps([x["sig"] for x in viol]).encode())
    return {"violations": viol, "nontrivial": nontrivial, "key": key,
            "digest": h.hexdigest(), "faults": faults or {},
            "probes": probes, "steps": 5 * (1 + len(traces)), "order": "",
            "states": ["%s/%s" % (sc["version"], sc["suite"])],
            "streams": ch.streams(), "inconclusive": False,
            "sample": {"scenario": sc,
                       "trace_of_bad_block_type":
                       traces.get("bad_block_type")}}
