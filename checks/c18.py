"""C18 - shared objects stay correct under every thread interleaving."""

import hashlib
import json

from sim import kernel
kernel.boot()
from sim import creds, threads        # noqa: E402
from model import linz                # noqa: E402

ID = "C18"
LEVEL = "exploration"
RULE = ("job = seed -> family in {rsa, cache, verifierdb, cache_seq}.  rsa: "
        "2-3 real threads each doing 1-2 sign/decrypt operations with "
        "distinct inputs on ONE Python_RSAKey; cache / verifierdb: 2-3 "
        "threads with drawn op lists (set/get/advance-clock resp. "
        "set/get/contains/del/keys) on one SessionCache / VerifierDB; the "
        "baton scheduler pre-empts at every source line of python_rsakey.py "
        "/ sessioncache.py / basedb.py / verifierdb.py and at every lock "
        "operation (instance locks replaced by SimLock), with schedules "
        "drawn as uniform random walks, PCT-style priority schedules with "
        "<= 3 change points, or round-robin.  cache_seq: single-threaded "
        "histories (<= 40 ops, duplicate IDs, invalidation, monotone clock) "
        "against the sequential reference cache.  Oracles: RSA result == "
        "sequential result and m == sig^e mod n; invoke/return histories "
        "linearizable against the sequential model; size bound; no exception "
        "other than KeyError for a miss.  distinct = digest(family, ops, "
        "interleaving); non-trivial = >= 1 context switch happened inside an "
        "operation (concurrent families) / >= 1 expiry or eviction happened "
        "(cache_seq)"
        ' Verifier-db histories include stores the database must refuse (it has to stay usable).'
        ' rsa family: keys loaded from PEM or generated in-process (reference: a second key object built from the same integers), decryption of invalid-padding ciphertexts (implicit rejection is a deterministic function of key and ciphertext); pre-emption points also in rsakey.py.')
LEVEL_TEXT = ("Seeded schedule search with real threads parked at intercepted "
              "points (line events + SimLock), one runnable at a time, so "
              "every interleaving replays exactly.  Bounded: <= 3 threads, "
              "<= 12 operations per concurrent history (linearizability "
              "search is exponential), pre-emption only at line granularity "
              "of the four watched files.")
LEVEL_NOTE = ("Trusted: the baton scheduler, model/linz.py, the sequential "
              "cache model below.  Pre-emption inside a single bytecode line "
              "or inside C code (dict operations, pow) is not explored; "
              "CPython's GIL makes those atomic.")
BUDGET = {"quick": 300, "thorough": 1200}
CHUNK = 8
PROBES = ["rsa", "cache", "verifierdb", "cache_seq", "lock_contended",
          "generated_key", "decrypt_invalid_padding",
          "policy_random", "policy_pct", "policy_rr", "expired", "evicted",
          "duplicate_id", "invalidated", "three_threads"]
COMPONENTS_REAL = ["Python_RSAKey (blinding state + lock), SessionCache, "
                   "BaseDB/VerifierDB, Session"]
COMPONENTS_STUB = ["thread scheduling (baton; real threads, one runnable)",
                   "threading.Lock instances (SimLock)", "time.time "
                   "(SimClock)", "os.urandom (per-thread PRNG)"]
ASSUMPTIONS = ["pre-emption points = line events in the watched files and "
               "lock operations"]

FAMS = ["rsa", "cache", "verifierdb", "cache_seq", "cache", "verifierdb",
        "verifierdb", "verifierdb", "cache", "verifierdb"]
WATCH = ("tlslite/utils/python_rsakey.py", "tlslite/utils/rsakey.py",
         "tlslite/sessioncache.py",
         "tlslite/basedb.py", "tlslite/verifierdb.py")


def plan(tier, base_seed):
    n = {"quick": 5000, "thorough": 400000}[tier]
    jobs = [{"seed": base_seed * 1000003 + i, "fam": FAMS[i % len(FAMS)]}
            for i in range(n)]
    for j in jobs[:4]:
        j["keep"] = True
    return jobs


# ---------------------------------------------------------------------------
class CacheModel(object):
    """Sequential reference of SessionCache: entries in insertion order."""

    def __init__(self, max_entries, max_age):
        self.n = max_entries
        self.age = max_age

    def init(self):
        return (0.0, ())        # (time, ((id, t, value, valid), ...))

    def _purge(self, now, ents):
        while ents and now - ents[0][1] > self.age:
            ents = ents[1:]
        return ents

    def apply(self, state, op):
        now, ents = state
        if op[0] == "adv":
            return (now + op[1], ents), None
        if op[0] == "set":
            ents = tuple(e for e in ents if e[0] != op[1]) + \
                ((op[1], now, op[2], True),)
            if len(ents) >= self.n:
                ents = ents[1:]
            return (now, ents), None
        if op[0] == "get":
            ents = self._purge(now, ents)
            for e in ents:
                if e[0] == op[1]:
                    if e[3]:
                        return (now, ents), e[2]
                    return (now, ents), "KeyError"
            return (now, ents), "KeyError"
        if op[0] == "inval":
            ents = tuple((e[0], e[1], e[2], False if e[0] == op[1] else e[3])
                         for e in ents)
            return (now, ents), None
        raise ValueError(op)


class DictModel(object):
    def init(self):
        return ()

    def apply(self, state, op):
        d = dict(state)
        if op[0] == "set":
            d[op[1]] = op[2]
            return tuple(sorted(d.items())), None
        if op[0] == "get":
            return state, d.get(op[1], "KeyError")
        if op[0] == "has":
            return state, op[1] in d
        if op[0] == "del":
            if op[1] in d:
                del d[op[1]]
                return tuple(sorted(d.items())), None
            return state, "KeyError"
        if op[0] == "keys":
            return state, tuple(sorted(d))
        if op[0] == "set_bad":
            return state, "refused"
        raise ValueError(op)


def new_sched(ch):
    pol = ["random", "pct", "rr"][ch.draw(3, "sched.policy")]
    return threads.Baton(ch, watched=WATCH, policy=pol, max_steps=100000,
                         horizon=300), pol


def run(job, streams=None):
    seed = job["seed"]
    fam = job["fam"]
    ch = kernel.Chooser(seed=seed) if streams is None else \
        kernel.Chooser(streams=streams)
    kernel.reset_harness(seed)
    viol = []
    probes = {fam: 1}

    def v(rule, sig, msg):
        viol.append({"rule": rule, "sig": fam + "|" + sig, "msg": msg})

    if fam == "rsa":
        res = run_rsa(ch, seed, v, probes)
    elif fam == "cache":
        res = run_cache(ch, seed, v, probes)
    elif fam == "verifierdb":
        res = run_vdb(ch, seed, v, probes)
    else:
        res = run_cache_seq(ch, seed, v, probes)
    desc, order, steps, switches, sim_time, nontrivial = res
    key = hashlib.sha256(json.dumps([fam, desc, order],
                                    default=str).encode()).hexdigest()
    h = hashlib.sha256(json.dumps([fam, desc, order,
                                   [x["sig"] for x in viol]],
                                  default=str).encode()).hexdigest()
    return {"violations": viol, "nontrivial": nontrivial, "key": key,
            "digest": h, "faults": {"preempt": switches}, "probes": probes,
            "steps": steps, "order": hashlib.sha256(
                "".join(order).encode()).hexdigest(),
            "sim_time": sim_time, "states": [fam],
            "streams": ch.streams(), "inconclusive": False,
            "sample": {"family": fam, "ops": desc,
                       "interleaving": "".join(o[-1] for o in order)[:200]}}


# ---------------------------------------------------------------------------
def run_rsa(ch, seed, v, probes):
    chain, key = creds.fresh("server", "rsa")
    _, refkey = creds.fresh("server", "rsa")
    if ch.draw(3, "rsa.keysrc") == 1:
        # a key made in-process; the reference is a second key object
        # built from the same integers (what saving and reloading gives)
        from tlslite.utils.keyfactory import generateRSAKey
        from tlslite.utils.python_rsakey import Python_RSAKey
        key = generateRSAKey(1024, ["python"])
        refkey = Python_RSAKey(key.n, key.e, key.d, key.p, key.q, key.dP,
                               key.dQ, key.qInv)
        probes["generated_key"] = 1
    sched, pol = new_sched(ch)
    probes["policy_" + pol] = 1
    key._lock = threads.SimLock(sched, "rsa")
    nthr = 2 + (ch.draw(3, "rsa.nthr") == 1)
    if nthr == 3:
        probes["three_threads"] = 1
    plans = []
    results = {}
    n = key.n
    for t in range(nthr):
        ops = []
        for k in range(1 + ch.draw(2, "rsa.nops")):
            kind = ["sign", "decrypt", "raw", "decrypt_bad", "decrypt_bad"][
                ch.draw(5, "rsa.kind")]
            data = hashlib.sha256(b"%d:%d:%d" % (seed, t, k)).digest()
            ops.append((kind, data))
        plans.append(ops)

    # sequential reference (harness context, other key object)
    def do(k, kind, data):
        if kind == "sign":
            return bytes(k.sign(bytearray(data), "pkcs1", "sha256"))
        if kind == "decrypt":
            ct = refkey.encrypt(bytearray(data))   # randomised, see below
            return ct
        return k._rawPrivateKeyOp(int.from_bytes(data * 8, "big") % n)

    # ciphertexts are produced up front (encryption is randomised)
    cts = {}
    for t, ops in enumerate(plans):
        for k, (kind, data) in enumerate(ops):
            if kind == "decrypt":
                cts[(t, k)] = bytes(refkey.encrypt(bytearray(data)))
    # ciphertexts with invalid padding: decryption is still a deterministic
    # function of (key, ciphertext) - the implicit-rejection message
    kbytes = (n.bit_length() + 7) // 8
    for t, ops in enumerate(plans):
        for k, (kind, data) in enumerate(ops):
            if kind == "decrypt_bad":
                c = int.from_bytes(hashlib.sha512(data).digest() * 4,
                                   "big") % n
                cts[(t, k)] = c.to_bytes(kbytes, "big")
                probes["decrypt_invalid_padding"] = 1
    want = {}
    for t, ops in enumerate(plans):
        for k, (kind, data) in enumerate(ops):
            if kind == "decrypt_bad":
                r_ = refkey.decrypt(bytearray(cts[(t, k)]))
                want[(t, k)] = bytes(r_) if r_ is not None else None
            elif kind == "sign":
                want[(t, k)] = bytes(refkey.sign(bytearray(data), "pkcs1",
                                                 "sha256"))
            elif kind == "decrypt":
                want[(t, k)] = bytes(data)
            else:
                m = int.from_bytes(data * 8, "big") % n
                want[(t, k)] = pow(m, key.d, n)

    def worker(t):
        def body():
            for k, (kind, data) in enumerate(plans[t]):
                sched.stamp("inv", (t, k))
                try:
                    if kind == "sign":
                        r = bytes(key.sign(bytearray(data), "pkcs1",
                                           "sha256"))
                    elif kind in ("decrypt", "decrypt_bad"):
                        r = key.decrypt(bytearray(cts[(t, k)]))
                        r = bytes(r) if r is not None else None
                    else:
                        m = int.from_bytes(data * 8, "big") % n
                        r = key._rawPrivateKeyOp(m)
                except Exception as e:       # noqa
                    r = ("exc", type(e).__name__, str(e))
                results[(t, k)] = r
                sched.stamp("ret", (t, k))
        return body
    for t in range(nthr):
        sched.spawn("T%d" % t, worker(t),
                    kernel.Node("T%d" % t, seed))
    st = sched.run()
    if st != "done":
        v("liveness", st, "threads did not finish: %s" % st)
    for k2, w in want.items():
        got = results.get(k2)
        if got != w:
            v("wrong_result", plans[k2[0]][k2[1]][0],
              "thread %d op %d (%s): result differs from the sequential / "
              "pow(m, d, n) value: got %r" % (k2[0], k2[1],
                                             plans[k2[0]][k2[1]][0],
                                             str(got)[:80]))
    if key._lock.contended:
        probes["lock_contended"] = 1
    desc = [[o[0] for o in p] for p in plans]
    return desc, sched.order, sched.steps, sched.switches, 0.0, \
        sched.switches > nthr


def make_session(tag):
    from tlslite.api import Session
    s = Session()
    s.resumable = True
    s.sessionID = bytearray(b"id-" + tag)
    s.cipherSuite = 0x2f
    s.masterSecret = bytearray(tag.ljust(48, b"."))
    return s


def run_cache(ch, seed, v, probes):
    from tlslite.api import SessionCache
    sched, pol = new_sched(ch)
    probes["policy_" + pol] = 1
    clock = kernel.SimClock(0.0)
    main = kernel.Node("main", seed, clock)
    max_entries = [4, 3, 5][ch.draw(3, "c.max")]
    max_age = [100, 10][ch.draw(2, "c.age")]
    with main:
        cache = SessionCache(max_entries, max_age)
    cache.lock = threads.SimLock(sched, "cache")
    nthr = 2 + (ch.draw(3, "c.nthr") == 1)
    if nthr == 3:
        probes["three_threads"] = 1
    ids = [b"k%d" % i for i in range(3)]
    plans = []
    sessions = {}
    uniq = [0]
    total = 0
    for t in range(nthr):
        ops = []
        for k in range(2 + ch.draw(3, "c.nops")):
            if total >= 11:
                break
            total += 1
            kind = ["set", "get", "get", "adv"][ch.draw(4, "c.kind")]
            if kind == "set":
                # unique IDs per set: duplicate-ID behaviour is examined by
                # the sequential family
                uniq[0] += 1
                sid = b"k%d" % (10 + uniq[0])
                ids.append(sid)
                val = "v%d" % uniq[0]
                sessions[val] = make_session(val.encode())
                ops.append(("set", sid, val))
            elif kind == "get":
                ops.append(("get", ids[ch.draw(len(ids), "c.id")]))
            else:
                ops.append(("adv", [1, 6, 11, 101][ch.draw(4, "c.dt")]))
        plans.append(ops)
    hist = []
    sizes = []

    def worker(t):
        def body():
            for k, op in enumerate(plans[t]):
                inv = sched.stamp("inv", (t, k))
                try:
                    if op[0] == "set":
                        cache[bytearray(op[1])] = sessions[op[2]]
                        r = None
                    elif op[0] == "get":
                        s = cache[bytearray(op[1])]
                        r = [n_ for n_, s_ in sessions.items()
                             if s_ is s][0]
                    else:
                        clock.advance(op[1])
                        r = None
                except KeyError:
                    r = "KeyError"
                except Exception as e:      # noqa
                    r = ("exc", type(e).__name__, str(e)[:60])
                ret = sched.stamp("ret", (t, k))
                sizes.append(len(cache.entriesDict))
                hist.append({"id": (t, k), "inv": inv, "ret": ret, "op": op,
                             "res": r})
        return body
    for t in range(nthr):
        sched.spawn("T%d" % t, worker(t), kernel.Node("T%d" % t, seed, clock))
    st = sched.run()
    if st != "done":
        v("liveness", st, "threads did not finish: %s" % st)
    for h in hist:
        if isinstance(h["res"], tuple):
            v("internal_error", h["res"][1], "op %r raised %r" %
              (h["op"], h["res"]))
    if sizes and max(sizes) > max_entries:
        v("size_bound", "dict", "cache held %d entries, bound %d" %
          (max(sizes), max_entries))
    model = CacheModel(max_entries, max_age)
    if st == "done" and not any(isinstance(h["res"], tuple) for h in hist):
        try:
            ok = linz.check(hist, model)
        except RuntimeError:
            ok = True
        if not ok:
            v("not_linearizable", "cache",
              "history is not linearizable against the sequential cache "
              "(maxEntries=%d maxAge=%d): %s" %
              (max_entries, max_age, json.dumps(
                  sorted([[h["inv"], h["ret"], list(map(str, h["op"])),
                           str(h["res"])] for h in hist]))))
    if cache.lock.contended:
        probes["lock_contended"] = 1
    desc = [[list(map(str, o)) for o in p] for p in plans]
    return desc, sched.order, sched.steps, sched.switches, clock.t, \
        sched.switches > nthr


def run_vdb(ch, seed, v, probes):
    from tlslite.api import VerifierDB
    sched, pol = new_sched(ch)
    probes["policy_" + pol] = 1
    db = VerifierDB()
    db.create()
    db.lock = threads.SimLock(sched, "vdb")
    nthr = 2 + (ch.draw(3, "v.nthr") == 1)
    if nthr == 3:
        probes["three_threads"] = 1
    users = ["alice", "bob", "carol"]
    plans = []
    uniq = [0]
    total = 0
    entries = {}
    for t in range(nthr):
        ops = []
        for k in range(2 + ch.draw(3, "v.nops")):
            if total >= 11:
                break
            total += 1
            kind = ["set", "get", "has", "del", "keys", "get", "set",
                    "get", "set_bad"][ch.draw(9, "v.kind")]
            # most operations meet on one user
            u = users[[0, 0, 1, 2][ch.draw(4, "v.user")]]
            if kind == "set":
                uniq[0] += 1
                val = uniq[0]
                entries[val] = (23 + val, 2, bytearray(b"salt%d" % val),
                                1000 + val)
                ops.append(("set", u, val))
            elif kind == "set_bad":
                # a store the database has to refuse (user name too long /
                # entry of the wrong shape); it must leave the object usable
                ops.append(("set_bad", ch.draw(2, "v.badkind")))
            elif kind == "keys":
                ops.append(("keys",))
            else:
                ops.append((kind, u))
        plans.append(ops)
    hist = []

    def worker(t):
        def body():
            for k, op in enumerate(plans[t]):
                inv = sched.stamp("inv", (t, k))
                try:
                    if op[0] == "set":
                        db[op[1]] = entries[op[2]]
                        r = None
                    elif op[0] == "get":
                        e = db[op[1]]
                        r = e[3] - 1000
                    elif op[0] == "set_bad":
                        try:
                            if op[1] == 0:
                                db["u" * 256] = entries[min(entries)] \
                                    if entries else (1, 2, bytearray(b"s"), 3)
                            else:
                                db["mallory"] = (1, 2)
                            r = "accepted"
                        except (ValueError, TypeError):
                            r = "refused"
                    elif op[0] == "has":
                        r = op[1] in db
                    elif op[0] == "del":
                        del db[op[1]]
                        r = None
                    else:
                        r = tuple(sorted(db.keys()))
                except KeyError:
                    r = "KeyError"
                except Exception as e:      # noqa
                    r = ("exc", type(e).__name__, str(e)[:60])
                ret = sched.stamp("ret", (t, k))
                hist.append({"id": (t, k), "inv": inv, "ret": ret, "op": op,
                             "res": r})
        return body
    for t in range(nthr):
        sched.spawn("T%d" % t, worker(t), kernel.Node("T%d" % t, seed))
    st = sched.run()
    if st != "done":
        v("liveness", st, "threads did not finish: %s" % st)
    for h in hist:
        if isinstance(h["res"], tuple) and h["res"] and h["res"][0] == "exc":
            v("internal_error", h["res"][1], "op %r raised %r" %
              (h["op"], h["res"]))
    if st == "done" and not [1 for h in hist if isinstance(h["res"], tuple)
                             and h["res"] and h["res"][0] == "exc"]:
        try:
            ok = linz.check(hist, DictModel())
        except RuntimeError:
            ok = True
        if not ok:
            v("not_linearizable", "verifierdb", "history not linearizable "
              "against a dict: %s" % json.dumps(sorted(
                  [[h["inv"], h["ret"], list(map(str, h["op"])),
                    str(h["res"])] for h in hist])))
    if db.lock.contended:
        probes["lock_contended"] = 1
    desc = [[list(map(str, o)) for o in p] for p in plans]
    return desc, sched.order, sched.steps, sched.switches, 0.0, \
        sched.switches > nthr


def run_cache_seq(ch, seed, v, probes):
    from tlslite.api import SessionCache
    clock = kernel.SimClock(0.0)
    node = kernel.Node("seq", seed, clock)
    max_entries = [4, 2, 3, 6, 10][ch.draw(5, "q.max")]
    max_age = [100, 10, 1000][ch.draw(3, "q.age")]
    model = CacheModel(max_entries, max_age)
    state = model.init()
    ops = []
    sessions = {}
    ids = [b"a", b"b", b"c", b"d", b"e"]
    nops = 5 + ch.draw(36, "q.n")
    nontrivial = False
    dup_allowed = ch.draw(2, "q.dup") == 1
    used = set()
    with node:
        cache = SessionCache(max_entries, max_age)
        for i in range(nops):
            kind = ["set", "get", "get", "adv", "inval"][ch.draw(5, "q.kind")]
            sid = ids[ch.draw(len(ids), "q.id")]
            if kind == "set":
                if not dup_allowed and sid in used:
                    sid = b"u%d" % i
                if sid in used:
                    probes["duplicate_id"] = 1
                used.add(sid)
                val = "v%d" % i
                sessions[val] = make_session(val.encode())
                op = ("set", sid, val)
            elif kind == "get":
                op = ("get", sid)
            elif kind == "adv":
                op = ("adv", [1, 5, 11, 50, 101, 1001][ch.draw(6, "q.dt")])
            else:
                op = ("inval", sid)
                probes["invalidated"] = 1
            ops.append(list(map(str, op)))
            before = state
            state, want = model.apply(state, op)
            if len(state[1]) < len(before[1]) + (1 if op[0] == "set" else 0):
                nontrivial = True
                probes["evicted" if op[0] == "set" else "expired"] = 1
            try:
                if op[0] == "set":
                    cache[bytearray(sid)] = sessions[val]
                    got = None
                elif op[0] == "get":
                    s = cache[bytearray(sid)]
                    got = [n_ for n_, s_ in sessions.items() if s_ is s][0]
                elif op[0] == "adv":
                    clock.advance(op[1])
                    got = None
                else:
                    # the caller-held Session object is invalidated (as a
                    # fatal alert would do)
                    for e in before[1]:
                        if e[0] == sid:
                            sessions[e[2]].resumable = False
                    got = None
            except KeyError:
                got = "KeyError"
            except Exception as e:        # noqa
                got = ("exc", type(e).__name__)
            if got != want:
                dup = "dup" if probes.get("duplicate_id") else "nodup"
                if isinstance(got, tuple):
                    v("internal_error", "%s|%s" % (got[1], dup),
                      "op #%d %r raised %s; history=%s" %
                      (i, op, got[1], json.dumps(ops)))
                else:
                    kindv = "lost_live_entry" if got == "KeyError" else \
                        "wrong_entry"
                    v(kindv, dup, "op #%d %r returned %r, model says %r "
                      "(maxEntries=%d maxAge=%d); history=%s" %
                      (i, op, got, want, max_entries, max_age,
                       json.dumps(ops)))
                break
            if len(cache.entriesDict) > max_entries:
                v("size_bound", "seq", "cache holds %d entries" %
                  len(cache.entriesDict))
                break
    return ops, ["S"], len(ops), 0, clock.t, nontrivial
