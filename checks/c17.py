"""C17 - closure, truncation and transport failures are contained and reported
faithfully (fault enumeration over socket call indices)."""

import hashlib
import json

from sim import kernel
kernel.boot()
from sim import nodes, scen, script as sim_script, taps   # noqa: E402

ID = "C17"
LEVEL = "fault_enumeration"
RULE = ("for each scenario (version x flavour x {ideal, 1-byte} transport x "
        "closeSocket x ignoreAbruptClose) a fault-free run numbers every "
        "recv/send/sendall call of both endpoints; then one job per "
        "(endpoint, call kind, call index, fault in {eof, reset, epipe}) "
        "injects exactly that fault (quick: all indices on the ideal "
        "transport, every k-th on the 1-byte transport; thorough: all), plus "
        "every placement of close_notify / warning / fatal alerts relative "
        "to the data records.  distinct = (scenario, endpoint, kind, index, "
        "fault); non-trivial = the planned fault actually fired inside an "
        "operation (or the alert was delivered)"
        " Family dead_peer: the peer died after sending a fatal alert (or data); this endpoint's next send (application data, KeyUpdate, post-handshake CertificateRequest, ClientHello) fails with EPIPE/ECONNRESET while the alert is readable / lost / replaced by data: the call raises, the alert (when readable and the record is handshake-type) surfaces as TLSRemoteAlert, the connection is closed and not resumable."
        ' Under ignoreAbruptClose only a missing close_notify (EOF) may be ignored, a reset must raise.'
        " Family gone_reply: the peer wrote (heartbeat request,) data and close_notify and is gone; the replies this endpoint owes (heartbeat response, close_notify) fail with EPIPE / reset / timeout while it reads: data is delivered, the next read returns empty, the session stays resumable, writes raise the closed-connection error.  Alert placements also with the alert split into two one-byte records (sender's recordSize 1, TLS <= 1.2)."
        " Family shut: wclose = a multi-record write parked on a stalled transport while a read of the same connection meets the peer's close_notify (nothing may go out unprotected); cfault = socket.close() raising during the shutdown after a fatal alert / garbage record; eclose = TLS 1.3 client closing with closeSocket off before it has read the server's tickets."
        " shut/calert: close() with closeSocket off meets the peer's unread fatal alert (must surface, session not resumable).")
LEVEL_TEXT = ("Fault enumeration: exhaustive over the socket-call index space "
              "of the listed scenarios on the ideal transport (and in the "
              "thorough tier also on the 1-byte transport), one fault per "
              "run; both endpoints are judged by the closure/failure rules "
              "of the property.  Exhaustive per scenario, not over all "
              "scenarios.")
LEVEL_NOTE = ("Trusted: simulator's socket model (a failed call also ends the "
              "peer's inbound stream after the bytes already sent).  Faults "
              "are EOF/ECONNRESET/EPIPE at call granularity; partial sends "
              "followed by failure arise on the 1-byte transport.")
BUDGET = {"quick": 300, "thorough": 1500}
CHUNK = 16
PROBES = ["fault_eof", "fault_reset", "fault_epipe", "in_handshake",
          "in_data", "in_close", "alert_close_notify", "alert_warning",
          "alert_fatal", "ignore_abrupt", "no_close_socket", "byte_policy",
          "remote_alert_surfaced", "abrupt_close_seen", "orderly_close_seen",
          "dead_peer", "dead_write", "dead_keyupdate", "dead_pha",
          "shut_wclose", "shut_cfault", "shut_eclose", "shut_calert",
          "alert_fragmented", "gone_reply", "gone_heartbeat_sent", "gone_close",
          "gone_data_close",
          "dead_hello", "alert_readable", "alert_lost", "alert_data"]
COMPONENTS_REAL = ["tlslite handshake/read/write/close paths incl. "
                   "_sendMsgThroughSocket error path, _shutdown, "
                   "BufferedSocket"]
COMPONENTS_STUB = ["socket with injected EOF/ECONNRESET/EPIPE", "os.urandom",
                   "clock"]
ASSUMPTIONS = ["one transport fault per run"]

SCENARIOS = [
    {"version": [3, 3], "flavour": "cert", "skey": "rsa"},
    {"version": [3, 4], "flavour": "cert", "skey": "rsa"},
    {"version": [3, 4], "flavour": "cert", "skey": "ecdsa", "ckey": "rsa",
     "req_cert": True},
    {"version": [3, 1], "flavour": "cert", "skey": "rsa", "ckey": "rsa",
     "req_cert": True},
    {"version": [3, 0], "flavour": "cert", "skey": "rsa"},
    {"version": [3, 2], "flavour": "srp"},
    {"version": [3, 3], "flavour": "anon"},
    {"version": [3, 3], "flavour": "cert", "skey": "ecdsa",
     "sset_extra": {"ticketKeys": ["22" * 32]}},
    {"version": [3, 4], "flavour": "psk", "skey": "rsa", "psk": True},
    {"version": [3, 4], "flavour": "cert", "skey": "rsa", "hrr": True},
    {"version": [3, 3], "flavour": "srp_cert", "skey": "rsa"},
    {"version": [3, 3], "flavour": "cert", "skey": "dsa", "dsa": True},
    {"version": [3, 4], "flavour": "cert", "skey": "ecdsa", "hrr": True,
     "sset_extra": {"ticketKeys": ["33" * 32], "ticket_count": 2}},
    # the server asks for a certificate, the client has none
    {"version": [3, 3], "flavour": "cert", "skey": "rsa", "req_cert": True},
    {"version": [3, 0], "flavour": "cert", "skey": "rsa", "req_cert": True},
    # the client supports (and offers) more than the server negotiates; in
    # C06 its ClientHello also announces early data
    {"version": [3, 3], "flavour": "psk", "skey": "rsa", "cmax": [3, 4],
     "psk": True, "early_data": True},
]
FLAGS = [(True, False), (True, True), (False, False), (False, True)]
# (closeSocket, ignoreAbruptClose)


def full_scenario(i):
    b = dict(SCENARIOS[i])
    ver = b["version"]
    b["cset"] = {"minVersion": ver, "maxVersion": ver}
    b["sset"] = {"minVersion": ver, "maxVersion": ver}
    b["sset"].update(b.pop("sset_extra", {}))
    if b.pop("psk", None):
        b["cset"]["pskConfigs"] = [list(scen.PSK_HEX)]
        b["sset"]["pskConfigs"] = [list(scen.PSK_HEX)]
    if b.pop("hrr", None):
        b["cset"]["keyShares"] = []
    if b.get("cmax"):
        b["cset"] = dict(b["cset"], maxVersion=b.pop("cmax"))
    if b.pop("dsa", None):
        b["cset"]["keyExchangeNames"] = ["dhe_dsa"]
    return b


BASE_SCRIPT = [
    ["c", "write", 0, 300], ["s", "read", None, 300],
    ["s", "write", 0, 700], ["c", "read", None, 700],
    ["c", "write", 300, 50], ["s", "read", None, 50],
    ["c", "close"],
    ["s", "read", None, 1], ["s", "write", 700, 10], ["s", "read", None, 1],
    ["c", "read", None, 1], ["c", "write", 350, 10],
]

ALERTS = [("close_notify", 1, 0), ("warning", 1, 90), ("fatal", 2, 40),
          ("fatal", 2, 80), ("warning", 1, 100)]


def alert_script(sender, place, level, desc, frag=False):
    """sender writes 3 records; alert placed before record `place` (0..3);
    receiver reads with a min that needs all three."""
    rcv = "s" if sender == "c" else "c"
    out = []
    off = 0
    for i in range(3):
        if i == place:
            out.append([sender, "alert", level, desc, frag])
        out.append([sender, "write", off, 100])
        off += 100
    if place == 3:
        out.append([sender, "alert", level, desc, frag])
    out.append([rcv, "read", None, 300])
    out.append([rcv, "read", None, 1])
    out.append([rcv, "write", 0, 10])
    return out


def execute(seed, sc, policy, flags, script, plan_fault=None):
    sim = nodes.new_run(seed, chooser=kernel.Chooser(streams={}),
                        max_steps=200000, sched="first")
    pair = nodes.Pair(sim, sc, policy=policy)
    for ep in (pair.c, pair.s):
        ep.conn.closeSocket = flags[0]
        ep.conn.ignoreAbruptClose = flags[1]
    tp = {"c": (taps.RecvTap(pair.c.conn), taps.MsgTap(pair.c.conn)),
          "s": (taps.RecvTap(pair.s.conn), taps.MsgTap(pair.s.conn))}
    if plan_fault:
        who, kind, idx, f = plan_fault
        (pair.c if who == "c" else pair.s).sock.fault_plan[(kind, idx)] = f
    oc, os_, st = pair.handshake()
    hs_calls = {w: dict(ep.sock.calls) for w, ep in
                (("c", pair.c), ("s", pair.s))}
    eps = {"c": pair.c, "s": pair.s}

    def op_gen(ep, op):
        conn = ep.conn
        if op[1] == "write":
            data = scen.payload(1 if ep.name == "c" else 2, op[2], op[3])
            return lambda: conn.writeAsync(data)
        if op[1] == "read":
            return lambda: conn.readAsync(op[2], op[3])
        if op[1] == "close":
            return lambda: conn.closeAsync()
        if op[1] == "alert":
            from tlslite.messages import Alert
            if len(op) > 4 and op[4]:
                # the sender's application set recordSize to 1: the alert
                # travels as two one-byte records (legal before TLS 1.3)
                def fragmented():
                    old_rs = conn.recordSize
                    conn.recordSize = 1
                    try:
                        for r in conn._sendMsg(Alert().create(op[3], op[2])):
                            yield r
                    finally:
                        conn.recordSize = old_rs
                return fragmented
            return lambda: conn._sendMsg(Alert().create(op[3], op[2]))
        raise ValueError(op)

    if oc.kind == "ok" and os_.kind == "ok" and st == "idle":
        st = sim_script.run_script(sim, eps, script, op_gen)
    return sim, pair, tp, st, hs_calls


def baseline(si, policy, fi, script):
    sc = full_scenario(si)
    sim, pair, tp, st, hs_calls = execute(si + 1, sc, policy, FLAGS[fi],
                                          script)
    bad = [(w, o.desc, o.exc) for w, ep in (("c", pair.c), ("s", pair.s))
           for o in ep.history if o.kind not in ("ok",)
           and not (o.desc[0] == "write" and o.kind == "exc")]
    return {"calls": {"c": dict(pair.c.sock.calls),
                      "s": dict(pair.s.sock.calls)},
            "hs_calls": hs_calls, "status": st, "bad": bad}


def plan(tier, base_seed):
    jobs = []
    nsc = len(SCENARIOS)
    stride_byte = {"quick": 9, "thorough": 1}[tier]
    scen_ideal = range(nsc)
    scen_byte = {"quick": [0, 1, 3, 4, 5, 9], "thorough": range(nsc)}[tier]
    flag_sets = {"quick": {0: [0, 1, 2, 3]}, "thorough": None}[tier]
    for policy, scs, stride in (("ideal", scen_ideal, 1),
                                ("byte", scen_byte, stride_byte)):
        for si in scs:
            fis = [0, 1, 2, 3] if (flag_sets is None or si in flag_sets) \
                else [0]
            if policy == "byte" and tier == "quick":
                fis = [0]
            for fi in fis:
                b = baseline(si, policy, fi, BASE_SCRIPT)
                if b["status"] != "idle":
                    raise RuntimeError("baseline not idle: %r" % (b,))
                for who in "cs":
                    for kind in ("recv", "send", "sendall"):
                        n = b["calls"][who][kind]
                        for idx in range(0, n, stride):
                            faults = ["eof", "reset"] if kind == "recv" \
                                else ["epipe", "reset"]
                            for f in faults:
                                jobs.append({
                                    "seed": si + 1, "fam": "fault",
                                    "si": si, "policy": policy, "fi": fi,
                                    "fault": [who, kind, idx, f],
                                    "hs_calls": b["hs_calls"][who][kind]})
    # alert placements
    for si in ({"quick": [0, 1, 4], "thorough": range(nsc)}[tier]):
        for fi in range(4):
            for sender in "cs":
                for place in range(4):
                    for name, level, desc in ALERTS:
                        jobs.append({"seed": si + 1, "fam": "alert",
                                     "si": si, "policy": "ideal", "fi": fi,
                                     "alert": [sender, place, level, desc]})
                        if SCENARIOS[si]["version"] != [3, 4]:
                            jobs.append({"seed": si + 1, "fam": "alert",
                                         "si": si, "policy": "ideal",
                                         "fi": fi,
                                         "alert": [sender, place, level,
                                                   desc, True]})
    # the peer died with a fatal alert; the next record this endpoint sends
    # fails in the transport while the alert is still waiting to be read
    for si in ({"quick": [1, 2, 0, 9], "thorough": range(nsc)}[tier]):
        tls13 = SCENARIOS[si]["version"] == [3, 4]
        for fi in range(4):
            for actor in "cs":
                acts = ["write"] + (["keyupdate", "keyupdate_quiet"]
                                    if tls13 else [])
                if tls13 and actor == "s":
                    acts.append("pha")
                for act in acts:
                    for f in ("epipe", "reset"):
                        for desc, rd in ((40, "readable"), (80, "readable"),
                                         (40, "lost"), (0, "data")):
                            jobs.append({"seed": si + 1, "fam": "dead_peer",
                                         "si": si, "policy": "ideal",
                                         "fi": fi,
                                         "dead": [actor, act, f, desc, rd]})
        for fi in range(4):
            for f in ("epipe", "reset"):
                jobs.append({"seed": si + 1, "fam": "dead_peer", "si": si,
                             "policy": "ideal", "fi": fi,
                             "dead": ["c", "hello", f, 40, "readable"]})
    # the peer wrote (heartbeat request,) data and close_notify and is gone:
    # the courtesy replies of this endpoint (heartbeat response, answering
    # close_notify) fail in the transport while it reads
    for si in ({"quick": [0, 1, 4, 3], "thorough": range(nsc)}[tier]):
        for fi in range(4):
            for actor in "cs":
                for var in ("data_close", "hb_data_close", "close"):
                    for f in ("epipe", "reset", "timeout"):
                        jobs.append({"seed": si + 1, "fam": "gone_reply",
                                     "si": si, "policy": "ideal", "fi": fi,
                                     "gone": [actor, var, f]})
    # three small families around shutdown:
    #  wclose  - a multi-record write is parked on a stalled transport while a
    #            read of the same connection meets the peer's close_notify
    #  cfault  - socket.close() itself reports an error during a shutdown
    #            that follows a fatal alert
    #  eclose  - TLS 1.3 client closes (closeSocket off) before it has read
    #            the tickets the server sent after the handshake
    for si in ({"quick": [0, 1, 3, 4], "thorough": range(nsc)}[tier]):
        for fi in range(4):
            for actor in "cs":
                for stall in (100, 5000, 17000, 33000):
                    jobs.append({"seed": si + 1, "fam": "shut", "si": si,
                                 "policy": "ideal", "fi": fi,
                                 "shut": ["wclose", actor, stall]})
                for trig in ("fatal_alert", "garbage"):
                    jobs.append({"seed": si + 1, "fam": "shut", "si": si,
                                 "policy": "ideal", "fi": fi,
                                 "shut": ["cfault", actor, trig]})
                for desc in (40, 20, 80):
                    jobs.append({"seed": si + 1, "fam": "shut", "si": si,
                                 "policy": "ideal", "fi": fi,
                                 "shut": ["calert", actor, desc]})
    for si in [i for i in range(nsc) if SCENARIOS[i]["version"] == [3, 4]
               and "ticketKeys" in SCENARIOS[i].get("sset_extra", {})]:
        for fi in range(4):
            jobs.append({"seed": si + 1, "fam": "shut", "si": si,
                         "policy": "ideal", "fi": fi,
                         "shut": ["eclose", "c", 0]})
    # base_seed rotates which jobs come first under a budget
    if jobs:
        k = base_seed % len(jobs)
        jobs = jobs[k:] + jobs[:k]
    for j in jobs[:3]:
        j["keep"] = True
    return jobs


def EXHAUSTIVE(tier):
    return True


def run(job, streams=None):
    from tlslite.errors import (TLSAbruptCloseError, TLSRemoteAlert,
                                TLSClosedConnectionError, TLSLocalAlert)
    si = job["si"]
    sc = full_scenario(si)
    flags = FLAGS[job["fi"]]
    fam = job["fam"]
    if fam == "dead_peer":
        return run_dead_peer(job, sc, flags)
    if fam == "gone_reply":
        return run_gone_reply(job, sc, flags)
    if fam == "shut":
        return run_shut(job, sc, flags)
    if fam == "fault":
        script = BASE_SCRIPT
        pf = tuple(job["fault"])
    else:
        a = job["alert"]
        script = alert_script(a[0], a[1], a[2], a[3],
                              len(a) > 4 and a[4])
        pf = None
    sim, pair, tp, st, hs_calls = execute(job["seed"], sc, job["policy"],
                                          flags, script, pf)
    eps = {"c": pair.c, "s": pair.s}
    viol = []
    probes = {}
    ctx = "[%s %s]" % (json.dumps(sc, sort_keys=True),
                       json.dumps({k: job[k] for k in job
                                   if k in ("fault", "alert", "policy",
                                            "fi")}, sort_keys=True))

    def v(rule, sig, msg):
        viol.append({"rule": rule, "sig": sig, "msg": msg + " " + ctx})

    fired = False
    phase = None
    if pf:
        who, kind, idx, f = pf
        fs = eps[who].sock
        fired = bool(fs.fired)
        if fired:
            probes["fault_" + f] = 1
            phase = "in_handshake" if idx < job["hs_calls"] else "in_data"
            probes[phase] = 1
    if flags[1]:
        probes["ignore_abrupt"] = 1
    if not flags[0]:
        probes["no_close_socket"] = 1
    if job["policy"] == "byte":
        probes["byte_policy"] = 1
    if st not in ("idle",):
        v("liveness", "status_%s|%s" % (st, fam),
          "simulation ended %s: pending ops %r" %
          (st, [(w, eps[w].cur.desc) for w in "cs" if eps[w].cur]))

    sent_alerts = {w: [(m.get("level"), m.get("description"))
                       for m in tp[w][1].alerts()] for w in "cs"}
    for w in "cs":
        ep = eps[w]
        peer = "s" if w == "c" else "c"
        faulted_here = pf is not None and pf[0] == w and fired
        # (an alert may arrive in two one-byte records before TLS 1.3)
        ab = b"".join(b for t, b in tp[w][0].accepted if t == 21)
        got_alerts = [tuple(ab[i:i + 2]) for i in range(0, len(ab) - 1, 2)]
        got_close_notify = (1, 0) in got_alerts or \
            any(a[1] == 0 for a in got_alerts)
        failed = False
        clean = False
        rd_pos = 0
        want_all = scen.payload(1 if peer == "c" else 2, 0, 100000)
        for o in ep.history:
            name = o.desc[0]
            if o.kind == "pending":
                continue
            closed_after, resumable_after = o.post if o.post else (None,
                                                                  None)
            if o.kind == "exc":
                e = o.exc
                ok_type = isinstance(e, (OSError, TLSAbruptCloseError,
                                         TLSRemoteAlert))
                if not ok_type:
                    v("exception_type", "%s|%s|%s" % (name,
                                                      type(e).__name__, fam),
                      "%s %s raised %r" % (w, o.desc, e))
                if isinstance(e, TLSRemoteAlert):
                    if (e.level, e.description) not in sent_alerts[peer]:
                        v("phantom_alert", "%s|%s" % (name, e.description),
                          "%s %s raised %r but the peer never sent that "
                          "alert" % (w, o.desc, e))
                    else:
                        probes["remote_alert_surfaced"] = 1
                if isinstance(e, TLSAbruptCloseError):
                    probes["abrupt_close_seen"] = 1
                if closed_after is False:
                    v("not_closed", "%s|%s" % (name, type(e).__name__),
                      "%s still open after %s raised %r" % (w, o.desc, e))
                is_closed_err = isinstance(e, TLSClosedConnectionError)
                if name == "handshake":
                    if resumable_after:
                        v("resumable_after_failure", "handshake",
                          "%s session resumable after failed handshake" % w)
                elif name in ("read", "write") and not is_closed_err \
                        and not failed and not clean:
                    forgiving = flags[1] and name == "write"
                    if resumable_after and not forgiving and \
                            not (isinstance(e, TLSRemoteAlert)
                                 and e.description == 0):
                        v("resumable_after_failure", name,
                          "%s session left resumable after %s raised %r" %
                          (w, o.desc, e))
                if name == "write" and (failed or clean) and \
                        not is_closed_err:
                    v("write_after_close", type(e).__name__,
                      "write on a closed connection raised %r instead of "
                      "TLSClosedConnectionError" % (e,))
                if not is_closed_err:
                    failed = True
                continue
            # ---- ok outcomes
            if name == "handshake":
                if faulted_here and phase == "in_handshake":
                    v("completed_despite_failure", "handshake|%s" % pf[1],
                      "%s handshake returned normally although its %s call "
                      "#%d failed with %s" % (w, pf[1], pf[2], pf[3]))
                continue
            if name == "write":
                if failed or clean:
                    v("write_after_close", "ok",
                      "%s write succeeded on a closed connection" % w)
                continue
            if name == "close":
                clean = True
                continue
            if name == "alert":
                continue
            if name == "read":
                data = bytes(o.value)
                if want_all[rd_pos:rd_pos + len(data)] != data:
                    v("data", "not_prefix", "%s read returned bytes the peer "
                      "did not write at that position" % w)
                rd_pos += len(data)
                mn = o.desc[2]
                if len(data) < mn:
                    # short read: legitimate only after close_notify, or
                    # when the user ignores abrupt closes, or on a
                    # connection that is already closed
                    if got_close_notify:
                        clean = True
                        probes["orderly_close_seen"] = 1
                        if resumable_after is False and not failed and \
                                fam == "fault" and not fired:
                            v("not_resumable_after_orderly_close", "read",
                              "%s session lost resumability after "
                              "close_notify" % w)
                    elif failed or clean:
                        pass
                    elif flags[1] and not [c for c in ep.sock.calllog
                                           if c[0] == "recv" and c[2] in
                                           ("reset", "epipe")]:
                        clean = True      # ignoreAbruptClose: EOF only
                    elif flags[1]:
                        v("reset_as_eof", "read",
                          "%s read(min=%d) returned %d bytes without raising "
                          "although its transport failed with a reset (only "
                          "a missing close_notify may be ignored)" %
                          (w, mn, len(data)))
                    else:
                        v("truncation_as_eof", "read",
                          "%s read(min=%d) returned %d bytes without "
                          "close_notify and without raising" %
                          (w, mn, len(data)))
        # a faulted endpoint must have noticed
        if faulted_here and not failed:
            interrupted = [o for o in ep.history if o.kind == "exc"]
            if not interrupted and phase == "in_data":
                # the failing call may sit in close(), which is forgiving
                if any(o.desc[0] == "close" for o in ep.history):
                    probes["in_close"] = 1
                else:
                    v("fault_swallowed", pf[1],
                      "%s never reported the transport failure" % w)
    if fam == "alert":
        a = job["alert"]
        rcv = "s" if a[0] == "c" else "c"
        name = [n for n, l, d in ALERTS if l == a[2] and d == a[3]][0]
        probes["alert_" + name] = 1
        if len(a) > 4 and a[4]:
            probes["alert_fragmented"] = 1
        hist = eps[rcv].history
        excs = [o.exc for o in hist if o.kind == "exc"]
        if a[3] != 0:
            ra = [e for e in excs if isinstance(e, TLSRemoteAlert)]
            if not ra or ra[0].description != a[3]:
                v("alert_not_surfaced", "%s|%d" % (name, a[3]),
                  "peer's alert (level %d, description %d) was not surfaced "
                  "as TLSRemoteAlert: %r" % (a[2], a[3], excs))
            elif eps[rcv].conn.session.resumable:
                v("resumable_after_failure", "alert|" + name,
                  "session resumable after receiving alert %d" % a[3])
        else:
            if excs and not all(isinstance(e, TLSClosedConnectionError)
                                for e in excs):
                v("close_notify_error", type(excs[0]).__name__,
                  "orderly close surfaced as %r" % (excs[0],))
            if not eps[rcv].conn.session.resumable:
                v("not_resumable_after_orderly_close", "alert",
                  "session not resumable after close_notify")
    key = json.dumps([job.get("si"), job.get("policy"), job.get("fi"),
                      job.get("fault"), job.get("alert")])
    h = hashlib.sha256()
    h.update(bytes(pair.link.c2s.wire_log))
    h.update(bytes(pair.link.s2c.wire_log))
    h.update(repr([o.sig() for w in "cs" for o in eps[w].history]).encode())
    h.update(json.dumps([x["sig"] for x in viol]).encode())
    return {"violations": viol,
            "nontrivial": fired or fam == "alert", "key": key,
            "digest": h.hexdigest(), "faults": dict(sim.stats),
            "probes": probes, "steps": sim.steps, "order": "",
            "states": ["%s/%s/%s" % (si, fam, phase)],
            "streams": {}, "inconclusive": False,
            "sample": {"scenario": sc, "job": {k: v_ for k, v_ in job.items()
                                               if k != "keep"}}}


def run_shut(job, sc, flags):
    from tlslite.errors import (TLSClosedConnectionError, TLSRemoteAlert,
                                TLSLocalAlert, TLSAbruptCloseError)
    from tlslite.messages import Alert
    from sim.loop import Lane
    kind, actor, arg = job["shut"]
    peer = "s" if actor == "c" else "c"
    sim = nodes.new_run(job["seed"], chooser=kernel.Chooser(streams={}),
                        max_steps=400000, sched="first")
    pair = nodes.Pair(sim, sc, policy="ideal")
    for ep in (pair.c, pair.s):
        ep.conn.closeSocket = flags[0]
        ep.conn.ignoreAbruptClose = flags[1]
    eps = {"c": pair.c, "s": pair.s}
    A, P = eps[actor], eps[peer]
    viol = []
    probes = {"shut_" + kind: 1}
    ctx = "[%s %s]" % (json.dumps(sc, sort_keys=True, default=str),
                       json.dumps({"shut": job["shut"], "fi": job["fi"]}))

    def v(rule, sig, msg):
        viol.append({"rule": rule, "sig": sig, "msg": msg + " " + ctx})

    oc, os_, st = pair.handshake()
    if not (oc.kind == "ok" and os_.kind == "ok"):
        raise RuntimeError("shut baseline handshake failed: %r %r"
                           % (oc.exc, os_.exc))
    fired = False
    if kind == "wclose":
        secret = b"PLAINTEXT-MARKER-" * 2400          # > 2 records
        out_pipe = pair.link.c2s if actor == "c" else pair.link.s2c
        base = len(out_pipe.sent_log)
        A.sock.stall_after = base + arg
        W = Lane(A)
        ow = W.start(("write",), lambda: A.conn.writeAsync(secret))
        while W.op is not None and W.blocked != "w":
            W.step()
        parked = W.op is not None
        # the peer says goodbye; this endpoint's reader meets the close_notify
        P.start(("close_notify",),
                lambda: P.conn._sendMsg(Alert().create(0, 1)))
        sim.run(until=lambda: P.op is None)
        orr = A.start(("read",), lambda: A.conn.readAsync(None, 1))
        while A.op is not None and A.blocked != "w":
            A.step()
            sim._deliver()
        # the transport drains; the parked write is resumed
        A.sock.stall_after = None
        st = sim.run()
        fired = parked and A.conn.closed
        sent = bytes(out_pipe.sent_log[base:])
        if b"PLAINTEXT-MARKER" in sent:
            v("plaintext_on_wire", "wclose|%s" % (
                "keep_socket" if not flags[0] else "close_socket"),
              "%s: a write that was waiting for the transport while a read "
              "shut the connection down went on UNPROTECTED: the "
              "application data is readable on the wire (%d bytes after "
              "the stall point)" % (actor, len(sent) - arg))
        # (a write whose last record was protected before the shutdown may
        # still complete; only unprotected output is wrong)
        if fired and ow.kind == "exc" and not isinstance(
                ow.exc, (TLSClosedConnectionError, OSError)):
            v("exception_type", "wclose|%s" % type(ow.exc).__name__,
              "interrupted write raised %r" % (ow.exc,))
    elif kind == "cfault":
        A.sock.close_fault = "reset"
        if arg == "fatal_alert":
            P.start(("alert",), lambda: P.conn._sendMsg(Alert().create(40, 2)))
            sim.run(until=lambda: P.op is None)
        else:
            out = pair.link.c2s if peer == "c" else pair.link.s2c
            out.write(bytes([23, 3, 3, 0, 40]) + bytes(40))
        orr = A.start(("read",), lambda: A.conn.readAsync(None, 1))
        st = sim.run()
        fired = bool([f for f in A.sock.fired if f[0] == "close"])
        if orr.kind != "exc":
            v("fault_swallowed", "cfault|" + arg, "read returned %r" %
              (orr.value,))
        else:
            if not isinstance(orr.exc, (OSError, TLSRemoteAlert,
                                        TLSLocalAlert, TLSAbruptCloseError)):
                v("exception_type", "cfault|%s" % type(orr.exc).__name__,
                  "read raised %r" % (orr.exc,))
            closed_after, resumable_after = orr.post
            if closed_after is False:
                v("not_closed", "cfault|" + arg, "connection open after %r"
                  % (orr.exc,))
            if resumable_after:
                v("resumable_after_failure", "cfault|" + arg,
                  "session left resumable after a fatal %s because "
                  "socket.close() raised during the shutdown (%r)" %
                  (arg, orr.exc))
    elif kind == "calert":
        # the peer's fatal alert is still unread when this endpoint closes:
        # with closeSocket off, close() waits for an answer and finds it
        P.start(("alert",), lambda: P.conn._sendMsg(Alert().create(arg, 2)))
        sim.run(until=lambda: P.op is None)
        P.sock.abort()
        oc2 = A.start(("close",), lambda: A.conn.closeAsync())
        st = sim.run()
        fired = not flags[0]
        if not flags[0]:
            if oc2.kind != "exc" or not isinstance(oc2.exc, TLSRemoteAlert) \
                    or oc2.exc.description != arg:
                v("alert_not_surfaced", "calert|%s" % (
                    type(oc2.exc).__name__ if oc2.kind == "exc"
                    else oc2.kind),
                  "close() met the peer's fatal alert %d while waiting for "
                  "close_notify but ended with %s %r" % (
                      arg, oc2.kind, oc2.exc))
            closed_after, resumable_after = oc2.post
            if closed_after is False:
                v("not_closed", "calert", "connection open after close()")
            if resumable_after:
                v("resumable_after_failure", "calert",
                  "session left resumable although the peer had sent fatal "
                  "alert %d" % arg)
    else:
        # eclose: no read before the close; the server answers close_notify
        oc2 = A.start(("close",), lambda: A.conn.closeAsync())
        sim.run(until=lambda: A.blocked == "r" or A.op is None)
        P.start(("read",), lambda: P.conn.readAsync(None, 1))
        st = sim.run()
        fired = True
        if oc2.kind == "exc":
            v("orderly_close_broken", "eclose|%s" % type(oc2.exc).__name__,
              "close() right after a TLS 1.3 handshake (tickets unread, "
              "closeSocket=%s) raised %r" % (flags[0], oc2.exc))
        elif oc2.kind != "ok":
            v("liveness", "eclose|pending", "close never finished")
        elif A.conn.session is not None and not A.conn.session.resumable:
            v("orderly_close_broken", "eclose|not_resumable", "session lost "
              "resumability in an orderly close")
    key = json.dumps([job["si"], job["fi"], job["shut"]])
    h = hashlib.sha256()
    h.update(bytes(pair.link.c2s.wire_log))
    h.update(bytes(pair.link.s2c.wire_log))
    h.update(repr([o.sig() for w in "cs" for o in eps[w].history]).encode())
    h.update(json.dumps([x["sig"] for x in viol]).encode())
    return {"violations": viol, "nontrivial": bool(fired), "key": key,
            "digest": h.hexdigest(), "faults": dict(sim.stats),
            "probes": probes, "steps": sim.steps, "order": "",
            "states": ["%s/shut/%s" % (job["si"], kind)],
            "streams": {}, "inconclusive": False,
            "sample": {"scenario": sc, "job": {k: v_ for k, v_ in job.items()
                                               if k != "keep"}}}


def run_gone_reply(job, sc, flags):
    """Orderly close by a peer that is gone by the time this endpoint reads:
    what the peer wrote is delivered, the read after it returns empty, the
    session stays resumable - although the replies this endpoint owes
    (heartbeat response, close_notify) cannot be written any more."""
    from tlslite.errors import TLSClosedConnectionError
    from tlslite.messages import Alert
    actor, var, f = job["gone"]
    peer = "s" if actor == "c" else "c"
    sim = nodes.new_run(job["seed"], chooser=kernel.Chooser(streams={}),
                        max_steps=200000, sched="first")
    pair = nodes.Pair(sim, sc, policy="ideal")
    hb_seen = []
    pair.cset.heartbeat_response_callback = lambda m: hb_seen.append(1)
    pair.sset.heartbeat_response_callback = lambda m: hb_seen.append(1)
    for ep in (pair.c, pair.s):
        ep.conn.closeSocket = flags[0]
        ep.conn.ignoreAbruptClose = flags[1]
    eps = {"c": pair.c, "s": pair.s}
    viol = []
    probes = {"gone_reply": 1, "gone_" + var: 1}
    ctx = "[%s %s]" % (json.dumps(sc, sort_keys=True, default=str),
                       json.dumps({"gone": job["gone"], "fi": job["fi"]}))

    def v(rule, sig, msg):
        viol.append({"rule": rule, "sig": sig, "msg": msg + " " + ctx})

    A, P = eps[actor], eps[peer]
    oc, os_, st = pair.handshake()
    if not (oc.kind == "ok" and os_.kind == "ok"):
        raise RuntimeError("gone_reply baseline handshake failed: %r %r"
                           % (oc.exc, os_.exc))
    data = b"z" * 40

    def op_gen(ep, op):
        conn = ep.conn
        if op[1] == "close_notify":
            return lambda: conn._sendMsg(Alert().create(0, 1))
        if op[1] == "hb":
            return lambda: conn.write_heartbeat(bytearray(b"ping"), 16)
        if op[1] == "write":
            return lambda: conn.writeAsync(data)
        if op[1] == "read":
            return lambda: conn.readAsync(None, op[2])
        raise ValueError(op)
    pscript = []
    hb = var == "hb_data_close" and P.conn.heartbeat_supported and \
        P.conn.heartbeat_can_send
    if hb:
        pscript.append([peer, "hb"])
        probes["gone_heartbeat_sent"] = 1
    if var != "close":
        pscript.append([peer, "write"])
    pscript.append([peer, "close_notify"])
    st = sim_script.run_script(sim, eps, pscript, op_gen)
    P.sock.abort()
    A.sock.peer_gone = f
    ascript = ([[actor, "read", 40]] if var != "close" else []) + \
        [[actor, "read", 1], [actor, "write"]]
    st = sim_script.run_script(sim, eps, ascript, op_gen)
    outs = [o for o in A.history if o.desc[0] != "handshake"]
    if A.sock.fired:
        probes["fault_" + f] = 1
    if st != "idle":
        v("liveness", "status_%s|gone_reply" % st, "simulation ended %s" % st)
    want = ([data] if var != "close" else []) + [b""]
    for i, w_ in enumerate(want):
        o = outs[i] if i < len(outs) else None
        if o is None or o.kind != "ok" or bytes(o.value) != w_:
            v("orderly_close_broken", "%s|%s|%s" % (
                var, "data" if w_ else "eof",
                type(o.exc).__name__ if o is not None and o.kind == "exc"
                else (o.kind if o is not None else None)),
              "%s read #%d after the peer's orderly close: wanted %r, got "
              "%s %r" % (actor, i, w_, o and o.kind,
                         o and (o.exc if o.kind == "exc" else o.value)))
            break
    else:
        last = outs[len(want) - 1]
        closed_after, resumable_after = last.post
        if closed_after is False:
            v("not_closed", "gone_reply|%s" % var,
              "connection open after close_notify was read")
        if resumable_after is False:
            v("orderly_close_broken", "%s|not_resumable" % var,
              "session not resumable after the peer's orderly close")
        wr = outs[len(want)] if len(outs) > len(want) else None
        if wr is None or wr.kind != "exc" or not isinstance(
                wr.exc, TLSClosedConnectionError):
            v("write_after_close", "gone_reply|%s" % (wr and wr.kind),
              "write after the orderly close: %r" %
              (wr and (wr.exc or wr.value),))
    key = json.dumps([job["si"], job["fi"], job["gone"]])
    h = hashlib.sha256()
    h.update(bytes(pair.link.c2s.wire_log))
    h.update(bytes(pair.link.s2c.wire_log))
    h.update(repr([o.sig() for w in "cs" for o in eps[w].history]).encode())
    h.update(json.dumps([x["sig"] for x in viol]).encode())
    return {"violations": viol, "nontrivial": bool(A.sock.fired), "key": key,
            "digest": h.hexdigest(), "faults": dict(sim.stats),
            "probes": probes, "steps": sim.steps, "order": "",
            "states": ["%s/gone_reply/%s" % (job["si"], var)],
            "streams": {}, "inconclusive": False,
            "sample": {"scenario": sc, "job": {k: v_ for k, v_ in job.items()
                                               if k != "keep"}}}


def run_dead_peer(job, sc, flags):
    """The peer sent a fatal alert and vanished; the next send of this
    endpoint (application data, KeyUpdate, post-handshake CertificateRequest,
    ClientHello) fails with EPIPE / ECONNRESET while the alert sits unread."""
    from tlslite.errors import (TLSAbruptCloseError, TLSRemoteAlert,
                                TLSClosedConnectionError)
    from tlslite.messages import Alert
    from tlslite.constants import KeyUpdateMessageType
    actor, act, f, desc, rd = job["dead"]
    peer = "s" if actor == "c" else "c"
    if act == "pha":
        sc = dict(sc)
        sc["cset"] = dict(sc["cset"], post_handshake_auth=True)
        sc.setdefault("ckey", "rsa")
    sim = nodes.new_run(job["seed"], chooser=kernel.Chooser(streams={}),
                        max_steps=200000, sched="first")
    pair = nodes.Pair(sim, sc, policy="ideal")
    for ep in (pair.c, pair.s):
        ep.conn.closeSocket = flags[0]
        ep.conn.ignoreAbruptClose = flags[1]
    eps = {"c": pair.c, "s": pair.s}
    viol = []
    probes = {"dead_peer": 1, "dead_" + act: 1, "alert_" + rd: 1}
    ctx = "[%s %s]" % (json.dumps(sc, sort_keys=True, default=str),
                       json.dumps({"dead": job["dead"], "fi": job["fi"]}))

    def v(rule, sig, msg):
        viol.append({"rule": rule, "sig": sig, "msg": msg + " " + ctx})

    A, P = eps[actor], eps[peer]

    def arm():
        if rd in ("readable", "data"):
            # sends fail; what the peer wrote before dying can still be read
            A.sock.peer_gone = f
        else:
            # the whole transport fails from the next send on (alert lost)
            for kind in ("send", "sendall"):
                A.sock.fault_plan[(kind, A.sock.calls[kind])] = f

    if act == "hello":
        # plaintext fatal alert from a server that refuses service
        P.sock.out.write(bytes([21, 3, 3, 0, 2, 2, desc]))
        P.sock.abort()
        arm()
        oc = A.start(("handshake", "client"), pair.client_gen(None))
        st = sim.run()
        outs = [oc]
    else:
        oc, os_, st = pair.handshake()
        if not (oc.kind == "ok" and os_.kind == "ok"):
            raise RuntimeError("dead_peer baseline handshake failed: %r %r"
                               % (oc.exc, os_.exc))

        def op_gen(ep, op):
            conn = ep.conn
            if op[1] == "alert":
                return lambda: conn._sendMsg(Alert().create(op[3], op[2]))
            if op[1] == "write":
                return lambda: conn.writeAsync(b"y" * 40)
            if op[1] == "read":
                return lambda: conn.readAsync(None, 1)
            if op[1] == "keyupdate":
                return lambda: conn.send_keyupdate_request(
                    KeyUpdateMessageType.update_requested)
            if op[1] == "keyupdate_quiet":
                return lambda: conn.send_keyupdate_request(
                    KeyUpdateMessageType.update_not_requested)
            if op[1] == "pha":
                return lambda: conn.request_post_handshake_auth()
            raise ValueError(op)
        # rd == "data": what waits in the receive buffer is application
        # data, not an alert
        st = sim_script.run_script(
            sim, eps, [[peer, "write"]] if rd == "data" else
            [[peer, "alert", 2, desc]], op_gen)
        P.sock.abort()
        arm()
        st = sim_script.run_script(sim, eps, [[actor, act], [actor, "read"],
                                              [actor, "write"]], op_gen)
        outs = [o for o in A.history if o.desc[0] != "handshake"]
    if A.sock.fired:
        probes["fault_" + f] = 1
    if st != "idle":
        v("liveness", "status_%s|dead_peer" % st, "simulation ended %s" % st)
    first = outs[0] if outs else None
    if first is None or first.kind != "exc":
        v("fault_swallowed", "dead_peer|" + act,
          "%s %s did not report the transport failure: %r" %
          (actor, act, first and first.kind))
    else:
        e = first.exc
        if not isinstance(e, (OSError, TLSAbruptCloseError, TLSRemoteAlert)):
            v("exception_type", "%s|%s|dead_peer" % (act, type(e).__name__),
              "%s %s raised %r" % (actor, act, e))
        if rd == "readable" and act != "write" and not (
                isinstance(e, TLSRemoteAlert) and e.description == desc):
            # a failed send of a handshake-type record looks for the alert
            # the peer left behind: it has to come out as that alert
            v("alert_not_surfaced", "dead_peer|%s|%s" % (
                act, type(e).__name__),
              "the peer's fatal alert %d was waiting in the receive buffer "
              "when %s's %s failed in the transport, but the call raised %r"
              % (desc, actor, act, e))
        if isinstance(e, TLSRemoteAlert):
            probes["remote_alert_surfaced"] = 1
            if rd in ("lost", "data") or e.description != desc:
                v("phantom_alert", "%s|%s" % (act, e.description),
                  "%s raised %r but the peer sent alert %d" % (act, e, desc))
        closed_after, resumable_after = first.post
        if closed_after is False:
            v("not_closed", "%s|%s" % (act, type(e).__name__),
              "%s still open after %s raised %r" % (actor, act, e))
        if resumable_after and not (flags[1] and act == "write"):
            v("resumable_after_failure", act,
              "%s session left resumable after %s raised %r" %
              (actor, act, e))
        if flags[0] and not A.sock.closed:
            v("socket_left_open", act, "closeSocket is set but %s's socket "
              "is still open after %s raised %r" % (actor, act, e))
        for o in outs[1:]:
            if o.kind == "ok" and o.desc[0] == "write":
                v("write_after_close", "ok", "%s write succeeded after the "
                  "connection failed" % actor)
            if o.kind == "exc" and isinstance(o.exc, TLSRemoteAlert) and \
                    o.exc.description != desc:
                v("phantom_alert", "%s|%s" % (o.desc[0], o.exc.description),
                  "later %s raised %r" % (o.desc, o.exc))
    key = json.dumps([job["si"], job["fi"], job["dead"]])
    h = hashlib.sha256()
    h.update(bytes(pair.link.c2s.wire_log))
    h.update(bytes(pair.link.s2c.wire_log))
    h.update(repr([o.sig() for w in "cs" for o in eps[w].history]).encode())
    h.update(json.dumps([x["sig"] for x in viol]).encode())
    return {"violations": viol, "nontrivial": bool(A.sock.fired), "key": key,
            "digest": h.hexdigest(), "faults": dict(sim.stats),
            "probes": probes, "steps": sim.steps, "order": "",
            "states": ["%s/dead_peer/%s" % (job["si"], act)],
            "streams": {}, "inconclusive": False,
            "sample": {"scenario": sc, "job": {k: v_ for k, v_ in job.items()
                                               if k != "keep"}}}
