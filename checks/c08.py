"""C08 - malformed peer input fails cleanly, promptly and within bounded
memory."""

import hashlib
import json
import sys
import tracemalloc

from sim import kernel
kernel.boot()
from sim import nodes, scen, taps, byz, mutate, mitm, net, script as sim_script  # noqa
from sim.trace import where                                                # noqa

ID = "C08"
LEVEL = "exploration"
RULE = ("job = seed -> scenario (version x flavour x options) x victim role; "
        "the peer is the consistent byzantine endpoint.  A fault-free run "
        "lists the peer's messages (handshake and post-handshake); one "
        "message is mutated: generic byte-level operators on its "
        "serialisation (truncate at any offset with/without fixing the "
        "header length, extend, length-prefix +-1/0/max via a heuristic "
        "length-field finder, byte set/flip, handshake-header rewrite, "
        "splice), structured operators (SNI without host_name, empty PSK "
        "identities/binders, duplicated / dropped / unknown extensions, "
        "ServerKeyExchange curve_type != 3, unknown certificate signature "
        "OID, unknown KeyUpdate type, cipher suite not offered, bad "
        "compression method, compressed-certificate bomb) or record-level "
        "faults on the wire (oversize record, empty record, unknown type, "
        "SSLv2-framed garbage, 2^24-1 handshake length then EOF).  Oracle per "
        "victim call: exception in {BaseTLSException, OSError}; work counter "
        "(sys.monitoring PY_START) <= 400k + 400/byte received; tracemalloc "
        "peak <= 4 MiB + 64/byte; after failure closed and not resumable; "
        "own detections preceded by a fatal alert.  distinct = "
        "digest(scenario, victim, mutation); non-trivial = mutation emitted "
        "and the victim processed it"
        ' closeSocket=False dimension; every record the victim produced (incl. its alert) must be on the wire when its call raises; compressed-certificate bombs also declare lengths 0 and 1.'
        ' Well-formed SSLv2-compatible ClientHello with boundary challenge lengths.'
        ' Structural kinds also: ext_empty / ext_short (one extension of a hello / EncryptedExtensions / CertificateRequest keeps its type but has an empty or truncated payload, also on later messages of the flight), sig_other_family (CertificateVerify / ServerKeyExchange naming an advertised signature algorithm of another key family), sh_psk_index (ServerHello selecting a PSK identity that was not offered).'
        " The victim's transport may fail (timeout / EPIPE / reset) exactly while it writes its fatal alert (still: documented exception, closed, not resumable).")
LEVEL_TEXT = ("Seeded mutation search at every message index of the drawn "
              "flavours, both roles, with deterministic work and memory "
              "meters.  Sampling; the byzantine encoder is tlslite's own.")
LEVEL_NOTE = ("Trusted: simulator, interposer, meters (PY_START events count "
              "Python function entries, not C time; tracemalloc sees Python "
              "allocations incl. zlib output).  Bounds have ~20x headroom "
              "over honest handshakes.")
BUDGET = {"quick": 300, "thorough": 1500}
CHUNK = 8
STRUCT = ["sni_no_hostname", "psk_empty", "dup_ext", "drop_ext",
          "unknown_ext", "ske_curve_type", "cert_unknown_oid",
          "keyupdate_unknown", "suite_not_offered", "compression_bad",
          "cert_bomb", "empty_suites", "alert_weird", "heartbeat_bad",
          "empty_inner13", "ext_empty", "ext_short", "sig_other_family",
          "sh_psk_index"]
RECORD = ["oversize_record", "empty_record", "unknown_type", "sslv2_garbage",
          "hs_len_max_eof", "sslv2_hello"]
PROBES = mutate.GENERIC + STRUCT + RECORD + [
    "victim_client", "victim_server", "post_handshake", "memory_metered",
    "clean_alert", "tls13", "legacy", "close_socket_false",
    "alert_write_fault"]
COMPONENTS_REAL = ["all tlslite parsers reached through live handshakes, "
                   "error mapping in _getMsg/_getNextRecordFromSocket, "
                   "certificate (de)compression, x509 parsing"]
COMPONENTS_STUB = ["socket", "os.urandom", "clock", "byzantine peer",
                   "hostile wire for record-level faults"]
ASSUMPTIONS = ["one mutation per run"]

WORK_A, WORK_B = 400000, 400
MEM_A, MEM_B, MEM_C = 8 * 1024 * 1024, 64, 4

_mon = sys.monitoring
_TOOL = 3
_cnt = [0]
try:
    _mon.use_tool_id(_TOOL, "verif-c08")
    _mon.register_callback(_TOOL, _mon.events.PY_START,
                           lambda code, off: _cnt.__setitem__(0, _cnt[0] + 1))
    _HAVE_MON = True
except Exception:       # tool id taken (module re-import)
    _HAVE_MON = True


def plan(tier, base_seed):
    n = {"quick": 3000, "thorough": 500000}[tier]
    jobs = [{"seed": base_seed * 1000003 + i, "tier": tier}
            for i in range(n)]
    for j in jobs[:3]:
        j["keep"] = True
    return jobs


def struct_mutation(kind, msg, ch, ver, ctxinfo):
    """Returns list of messages to send instead, or None if not applicable
    to this message."""
    from tlslite import messages as M
    from tlslite.extensions import TLSExtension
    from tlslite.constants import ExtensionType
    name = type(msg).__name__
    if kind == "sni_no_hostname" and name == "ClientHello":
        data = bytearray([0, 6, 1, 0, 3]) + bytearray(b"abc")
        e = TLSExtension(extType=0).create(data)
        msg.extensions = [x for x in (msg.extensions or [])
                          if x.extType != 0] + [e]
        return [msg]
    if kind == "psk_empty" and name == "ClientHello":
        which = ch.draw(5, "mu.psk")
        data = {0: bytearray([0, 0, 0, 0]),
                1: bytearray([0, 6, 0, 0, 0, 0, 0, 0, 0, 0]),
                2: bytearray([0, 7, 0, 1, 65, 0, 0, 0, 0, 0, 0]),
                # empty identity with a binder / identity with empty binder
                3: bytearray([0, 6, 0, 0, 0, 0, 0, 0, 0, 33, 32]) +
                bytearray(32),
                4: bytearray([0, 7, 0, 1, 65, 0, 0, 0, 0, 0, 1, 0])}[which]
        e = TLSExtension(extType=41).create(data)
        exts = [x for x in (msg.extensions or []) if x.extType != 41]
        if not any(x.extType == 45 for x in exts):
            exts.append(TLSExtension(extType=45).create(bytearray([1, 1])))
        msg.extensions = exts + [e]
        return [msg]
    if kind in ("dup_ext", "drop_ext", "unknown_ext") and \
            hasattr(msg, "extensions") and msg.extensions:
        exts = list(msg.extensions)
        if kind == "dup_ext":
            k = ch.draw(len(exts), "mu.ext")
            exts.insert(ch.draw(len(exts) + 1, "mu.extpos"), exts[k])
        elif kind == "drop_ext":
            del exts[ch.draw(len(exts), "mu.ext")]
        else:
            ety = [0xffaa, 0x00ff, 17, 40, 44, 47, 5, 18][ch.draw(8,
                                                                  "mu.ety")]
            ln = [0, 1, 7, 300][ch.draw(4, "mu.elen")]
            exts.insert(ch.draw(len(exts) + 1, "mu.extpos"),
                        TLSExtension(extType=ety).create(bytearray(ln)))
        msg.extensions = exts
        return [msg]
    if kind in ("ext_empty", "ext_short") and \
            getattr(msg, "extensions", None):
        # one extension keeps its type but carries an empty / one-byte-short
        # payload; `mu.occ` lets the fault land on a later message of the
        # same flight too (second ClientHello after a HelloRetryRequest,
        # EncryptedExtensions, ...)
        if ctxinfo.setdefault("occ", [0, 0, 1, 2, 1][ch.draw(
                5, "mu.occ")]) > ctxinfo.get("seen", 0):
            ctxinfo["seen"] = ctxinfo.get("seen", 0) + 1
            return None
        exts = list(msg.extensions)
        k = ch.draw(len(exts), "mu.ext")
        body = bytearray(exts[k].write()[4:])
        if kind == "ext_short" and len(body) > 1:
            body = body[:-1] if ch.draw(2, "mu.exth") else body[:1]
        else:
            body = bytearray(0)
        exts[k] = TLSExtension(extType=exts[k].extType).create(body)
        msg.extensions = exts
        return [msg]
    if kind == "sh_psk_index" and name == "ServerHello" and any(
            x.extType == 41 for x in (msg.extensions or [])):
        # the server "selects" a PSK identity the client never offered
        idx = [1, 5, 0xffff, 0x100][ch.draw(4, "mu.pski")]
        msg.extensions = [
            x if x.extType != 41 else
            TLSExtension(extType=41).create(bytearray(idx.to_bytes(2, "big")))
            for x in msg.extensions]
        return [msg]
    if kind == "sig_other_family" and name in ("CertificateVerify",
                                               "ServerKeyExchange"):
        # a well-formed, advertised signature algorithm of ANOTHER key
        # family than the certificate's (the signature bytes stay)
        fams = [(4, 1), (4, 3), (8, 7), (8, 4), (2, 2), (8, 8), (5, 3),
                (8, 9), (2, 1)]
        if name == "CertificateVerify":
            cur = msg.signatureAlgorithm
            if cur is None:
                return None
            alts = [a for a in fams if a != tuple(cur)]
            msg.signatureAlgorithm = alts[ch.draw(len(alts), "mu.alg")]
            return [msg]
        if getattr(msg, "hashAlg", None) and ver == (3, 3):
            alts = [a for a in fams if a != (msg.hashAlg, msg.signAlg)]
            msg.hashAlg, msg.signAlg = alts[ch.draw(len(alts), "mu.alg")]
            return [msg]
        return None
    if kind == "ske_curve_type" and name == "ServerKeyExchange" and \
            getattr(msg, "curve_type", None) is not None:
        raw = bytearray(msg.write())
        raw[4] = [1, 2, 0, 255][ch.draw(4, "mu.ct")]
        return [M.Message(22, raw)]
    if kind == "cert_unknown_oid" and name in ("Certificate",):
        raw = bytearray(msg.write())
        pats = [bytes.fromhex("2a864886f70d01010b"),
                bytes.fromhex("2a864886f70d010105"),
                bytes.fromhex("2a8648ce3d040302"),
                bytes.fromhex("2a8648ce3d0401"),
                bytes.fromhex("2a864886f70d01010a"),
                bytes.fromhex("2b6570")]
        for p in pats:
            k = raw.find(p)
            if k >= 0:
                raw[k + len(p) - 1] = 0x63
                return [M.Message(22, raw)]
        return None
    if kind == "keyupdate_unknown" and name == "KeyUpdate":
        msg.message_type = 2 + ch.draw(254, "mu.ku")
        return [msg]
    if kind == "suite_not_offered" and name == "ServerHello":
        msg.cipher_suite = [0x0005, 0x1399, 0xc0ff, 0x0000][ch.draw(
            4, "mu.cs")]
        return [msg]
    if kind == "compression_bad" and name in ("ServerHello", "ClientHello"):
        raw = bytearray(msg.write())
        if name == "ServerHello":
            sl = raw[4 + 34]
            raw[4 + 35 + sl + 2] = 1
        else:
            sl = raw[4 + 34]
            o = 4 + 35 + sl
            cl = int.from_bytes(raw[o:o + 2], "big")
            o += 2 + cl
            raw[o + 1] = 1 if raw[o] >= 1 else raw[o + 1]
        return [M.Message(22, raw)]
    if kind == "empty_suites" and name == "ClientHello":
        msg.cipher_suites = []
        return [msg]
    if kind == "cert_bomb" and name in ("Certificate",
                                        "CompressedCertificate") and \
            ver == (3, 4):
        return [M.Message(22, bytearray(ctxinfo["bomb"]))]
    return None


def run(job, streams=None):
    from tlslite.errors import (BaseTLSException, TLSLocalAlert,
                                TLSRemoteAlert, TLSAbruptCloseError,
                                TLSAlert)
    from tlslite import messages as M
    seed = job["seed"]
    ch = kernel.Chooser(seed=seed) if streams is None else \
        kernel.Chooser(streams=streams)
    # mutation family first, so that the scenario can be one in which the
    # mutation applies
    fam = ch.draw(10, "mu.fam")
    pre_kind = None
    versions = None
    allow = None
    force_victim = None
    if 5 <= fam <= 7:
        pre_kind = STRUCT[ch.draw(len(STRUCT), "mu.kind")]
        if pre_kind == "cert_bomb":
            versions = [(3, 4)]
            allow = ["cert", "hrr"]
            force_victim = "c"
        elif pre_kind in ("sni_no_hostname", "psk_empty", "empty_suites"):
            force_victim = "s"
            if pre_kind == "psk_empty":
                versions = [(3, 4)]
        elif pre_kind == "ske_curve_type":
            versions = [(3, 3), (3, 1), (3, 2), (3, 0)]
            allow = ["cert", "cert_cauth", "ecdh_anon"]
            force_victim = "c"
        elif pre_kind in ("keyupdate_unknown", "empty_inner13"):
            versions = [(3, 4)]
        elif pre_kind == "suite_not_offered":
            force_victim = "c"
        elif pre_kind == "cert_unknown_oid":
            allow = ["cert", "cert_cauth", "srp_cert", "hrr"]
        elif pre_kind == "sh_psk_index":
            versions = [(3, 4)]
            allow = ["psk"]
            force_victim = "c"
        elif pre_kind == "sig_other_family":
            versions = [(3, 3), (3, 4), (3, 3)]
            if ch.draw(2, "mu.sigside") == 1:
                allow = ["cert_cauth"]
                force_victim = "s"
            else:
                allow = ["cert", "cert_cauth"]
                force_victim = "c"
    sc = scen.draw_flavour(ch, versions=versions, allow=allow)
    if pre_kind == "ske_curve_type" and sc["flavour"] == "cert" and \
            sc.get("skey") in ("rsa",):
        sc["cset"]["keyExchangeNames"] = ["ecdhe_rsa"]
    ver = tuple(sc["version"])
    victim = force_victim or "cs"[ch.draw(2, "cfg.victim")]
    if pre_kind == "cert_unknown_oid" and victim == "s" and \
            not sc.get("ckey"):
        victim = "c"
    pname = "s" if victim == "c" else "c"
    viol = []
    probes = {"victim_client" if victim == "c" else "victim_server": 1,
              "tls13" if ver == (3, 4) else "legacy": 1}
    ctx = ["[victim=%s scenario=%s]" % (victim,
                                        json.dumps(sc, sort_keys=True))]

    def v(rule, sig, msg):
        viol.append({"rule": rule, "sig": sig, "msg": msg + " " + ctx[0]})

    vtap = [None]
    awf_tap = [None]
    keep_socket = ch.draw(3, "cfg.keepsock") == 1
    if keep_socket:
        probes["close_socket_false"] = 1

    def build(chooser, rules):
        sim = nodes.new_run(seed, chooser=chooser, max_steps=60000,
                            sched="first")
        pair = nodes.Pair(sim, sc, policy="ideal")
        peer = pair.s if victim == "c" else pair.c
        vic = pair.c if victim == "c" else pair.s
        ip = byz.Interposer(peer.conn, rules)
        mt = taps.MsgTap(vic.conn)
        vtap[0] = taps.SendTap(vic.conn)
        # the application may keep ownership of the socket
        if keep_socket:
            vic.conn.closeSocket = False
        if rules:
            # (mutated run) the victim's transport may fail exactly while it
            # writes its fatal alert: still a documented exception, closed,
            # not resumable
            awf = [None, None, None, "timeout", "epipe", "reset"][
                ch.draw(6, "cfg.awf")]
            awf_tap[0] = taps.AlertWriteFault(vic.conn, vic.sock, awf) \
                if awf else None
        return sim, pair, peer, vic, ip, mt

    def op_gen(ep, op):
        if op[1] == "write":
            return lambda: ep.conn.writeAsync(b"D" * op[2])
        if op[1] == "read":
            return lambda: ep.conn.readAsync(None, op[2])
        if op[1] == "send":
            return lambda: ep.conn._sendMsg(op[2])
        if op[1] == "keyupdate":
            return lambda: ep.conn.send_keyupdate_request(1)
        if op[1] == "empty_inner":
            rl = ep.conn._recordLayer

            def empty():
                body = rl._encryptThenSeal(bytearray(0), 23)
                for r in rl._recordSocket.send(M.Message(23, body)):
                    yield r
            return empty

    def post_script():
        s = []
        if ver == (3, 4):
            s.append([pname, "keyupdate"])
        s += [[pname, "write", 30], [victim, "read", 30]]
        return s

    # ---- honest twin: message list of the peer
    sim0, pair0, peer0, vic0, ip0, mt0 = build(kernel.Chooser(streams={}),
                                               [])
    names = []
    ip0.rules.append(lambda m, c: names.append(type(m).__name__) or None)
    oc0, os0, st0 = pair0.handshake()
    if not (oc0.kind == "ok" and os0.kind == "ok"):
        return _res(job, ch, sim0, sc, viol, probes, False, "honest_failed",
                    None)
    nhs = len(names)
    sim_script.run_script(sim0, {"c": pair0.c, "s": pair0.s}, post_script(),
                          op_gen)
    nall = len(names)

    # ---- choose mutation
    info = {}
    if pre_kind == "cert_bomb":
        # built before the meters start: the harness' own allocations must
        # not be charged to the victim
        inflated = [16, 24, 32][ch.draw(3, "mu.bomb")] * 1024 * 1024
        # boundary values of the declared length: 0 is "no limit" for
        # zlib's max_length, 1 the smallest real limit
        declared = [100, 70000, 0, 1, 0xffffff][ch.draw(
            5 if job.get("tier") == "thorough" else 4, "mu.decl")]
        if declared == 0xffffff:
            inflated = 80 * 1024 * 1024
        info["bomb"] = mutate.cert_bomb(declared, inflated)
        info["bomb_desc"] = [declared, inflated]
    fired = []
    rules = []
    wire_fault = None
    if fam <= 4:
        kind = mutate.GENERIC[ch.draw(len(mutate.GENERIC), "mu.kind")]
        idx = ch.draw(nall, "mu.idx")

        def rule(msg, c):
            if c.cur_index != idx or fired:
                return None
            raw = msg.write()
            if getattr(msg, "contentType", 22) != 22:
                return None
            out = mutate.generic(raw, kind, ch)
            if out is None or bytes(out) == bytes(raw):
                return None
            fired.append(kind)
            return [M.Message(22, bytearray(out))]
        rules.append(rule)
        desc = {"kind": kind, "idx": idx,
                "msg": names[idx] if idx < len(names) else None}
    elif fam <= 7:
        kind = pre_kind
        if kind == "alert_weird":
            alert = M.Alert().create([0, 255, 120, 41][ch.draw(4, "mu.ad")],
                                     [0, 3, 1, 2][ch.draw(4, "mu.al")])
            desc = {"kind": kind, "alert": [alert.level, alert.description]}
        elif kind in ("heartbeat_bad", "empty_inner13"):
            desc = {"kind": kind}
        else:
            def rule(msg, c):
                if fired:
                    return None
                out = struct_mutation(kind, msg, ch, ver, info)
                if out is None:
                    return None
                fired.append(kind)
                return out
            rules.append(rule)
            desc = {"kind": kind}
            if kind == "cert_bomb":
                desc["declared_inflated"] = info["bomb_desc"]
    else:
        kind = RECORD[ch.draw(len(RECORD), "mu.kind")]
        desc = {"kind": kind}
        wire_fault = kind
    ctx[0] = "[victim=%s mutation=%s scenario=%s]" % (
        victim, json.dumps(desc), json.dumps(sc, sort_keys=True))
    probes[kind] = 1

    # ---- mutated run, metered
    sim, pair, peer, vic, ip, mt = build(ch, rules)
    dirn = "s2c" if victim == "c" else "c2s"
    if wire_fault:
        pipe = pair.link.s2c if victim == "c" else pair.link.c2s
        # which record of the peer's stream is hit
        tgt = ch.draw(6, "mu.rec")
        t = {"dir": dirn, "idx": tgt}
        if wire_fault == "oversize_record":
            t.update(kind="inject_plain", type=22,
                     body="00" * [16385, 18433, 20000][ch.draw(3, "mu.sz")])
        elif wire_fault == "empty_record":
            t.update(kind="inject_plain",
                     type=[22, 21, 20][ch.draw(3, "mu.ty")], body="")
        elif wire_fault == "unknown_type":
            t.update(kind="hdr_type",
                     type=[0, 19, 25, 99, 255][ch.draw(5, "mu.ty")])
        elif wire_fault == "sslv2_garbage":
            t.update(kind="replace_raw",
                     raw="802e0100020015000000100100800700c0030080060040"
                         "0200800400800000040000050000" + "ab" * 16)
        elif wire_fault == "sslv2_hello":
            # a well-formed SSLv2-compatible ClientHello (RFC 5246 E.2) in
            # place of the peer's first record; boundary challenge lengths
            chal = [16, 32, 33, 15, 0, 48, 255, 31][ch.draw(8, "mu.chal")]
            specs = bytes.fromhex("00002f" "000035" "00000a" "0000ff"
                                  "00c013" "00009c")
            body = bytes([1, 3, [3, 1][ch.draw(2, "mu.v2ver")]]) + \
                len(specs).to_bytes(2, "big") + b"\x00\x00" + \
                chal.to_bytes(2, "big") + specs + \
                bytes((i * 7 + 1) & 0xff for i in range(chal))
            t.update(kind="replace_raw", idx=0,
                     raw=(bytes([0x80 | (len(body) >> 8), len(body) & 0xff])
                          + body).hex())
        elif wire_fault == "hs_len_max_eof":
            t.update(kind="replace_raw", raw="16030300" + "05" + "01ffffff00",
                     then_eof=True)
        m = mitm.RecordMitm(pair.link, [t], sim.stats)
        if t.get("kind") == "replace_raw":
            orig = m.on_record

            def on_record(d, idx_, rec):
                if d == t["dir"] and idx_ == t["idx"]:
                    m._count(wire_fault)
                    if t.get("then_eof"):
                        pipe.eof = True
                        peer.sock.closed = True
                    return bytes.fromhex(t["raw"])
                return orig(d, idx_, rec)
            m.on_record = on_record
        fired_wire = m.fired
    metered_mem = ch.draw(2, "mu.mem") == 1 or kind == "cert_bomb"
    if metered_mem:
        tracemalloc.start()
        probes["memory_metered"] = 1
    _cnt[0] = 0
    _mon.set_events(_TOOL, _mon.events.PY_START)
    try:
        oc, os_, st = pair.handshake()
        vo = oc if victim == "c" else os_
        po = os_ if victim == "c" else oc
        eps = {"c": pair.c, "s": pair.s}
        if vo.kind == "ok":
            scr = []
            if po.kind == "ok":
                if kind == "alert_weird":
                    scr.append([pname, "send", alert])
                    fired.append(kind)
                elif kind == "heartbeat_bad":
                    raw = [b"", b"\x01", b"\x01\xff\xffabc", b"\x03\x00\x01a"
                           + b"p" * 16, b"\x01\x00\x02ab" + b"p" * 3][
                        ch.draw(5, "mu.hb")]
                    scr.append([pname, "send", M.Message(24, bytearray(raw))])
                    fired.append(kind)
                elif kind == "empty_inner13":
                    scr.append([pname, "empty_inner"])
                    fired.append(kind)
                scr += post_script()
            else:
                scr.append([victim, "read", 1])
            st = sim_script.run_script(sim, eps, scr, op_gen)
            probes["post_handshake"] = 1
    finally:
        _mon.set_events(_TOOL, 0)
        work = _cnt[0]
        peak = None
        if metered_mem:
            peak = tracemalloc.get_traced_memory()[1]
            tracemalloc.stop()
    if wire_fault:
        fired = list(fired_wire)
    rx_bytes = (pair.link.s2c if victim == "c" else pair.link.c2s).nread
    processed = False
    # ---- oracle over every victim call
    for o in vic.history:
        if o.kind == "pending":
            if st == "cap":
                v("hang", "step_cap|%s" % kind, "victim %r still running "
                  "after %d simulator steps" % (o.desc, sim.steps))
            continue
        if o.kind != "exc":
            continue
        processed = True
        e = o.exc
        closed_after, resumable_after = o.post if o.post else (None, None)
        if not isinstance(e, (BaseTLSException, OSError)):
            v("exception_type", "%s|%s|%s" % (type(e).__name__, where(e),
                                              "client" if victim == "c"
                                              else "server"),
              "victim %r raised %r (not a documented exception type)" %
              (o.desc, e))
        else:
            own = not isinstance(e, (TLSRemoteAlert, TLSAbruptCloseError,
                                     OSError))
            if own:
                fa = mt.fatal_alerts()
                if not isinstance(e, TLSLocalAlert) or not fa:
                    v("alert_first", "%s|%s|%s" % (type(e).__name__,
                                                   where(e), "client"
                                                   if victim == "c"
                                                   else "server"),
                      "victim detected a protocol violation (%r) but no "
                      "fatal alert was sent first" % (e,))
                else:
                    probes["clean_alert"] = 1
                    # ... and it must have left the endpoint: every record
                    # the record layer produced is on the wire by now
                    out_pipe = pair.link.c2s if victim == "c" else \
                        pair.link.s2c
                    rp = net.RecordParser()
                    on_wire = len(rp.feed(bytes(out_pipe.wire_log)))
                    made = len(vtap[0].records)
                    if on_wire < made and not rp.buf and not (
                            awf_tap[0] is not None and awf_tap[0].fired):
                        v("alert_first", "not_on_wire|%s|%s" % (
                            "client" if victim == "c" else "server",
                            "keep_socket" if keep_socket else "close_socket"),
                          "victim raised %r after queueing its fatal alert, "
                          "but %d of the %d records it produced never "
                          "reached the transport" % (e, made - on_wire, made))
        if closed_after is False:
            v("not_closed", type(e).__name__, "connection open after %r" %
              (e,))
        if resumable_after:
            if not (isinstance(e, TLSRemoteAlert) and e.description == 0):
                v("resumable_after_failure", type(e).__name__,
                  "session resumable after %r" % (e,))
    if fired and vic.history and vic.history[0].kind == "ok":
        processed = True
    if awf_tap[0] is not None and awf_tap[0].fired:
        probes["alert_write_fault"] = 1
    if fired:
        if work > WORK_A + WORK_B * rx_bytes:
            v("work", kind, "work counter %d exceeds %d + %d*%d bytes" %
              (work, WORK_A, WORK_B, rx_bytes))
        declared = info.get("bomb_desc", [0])[0]
        bound = MEM_A + MEM_B * rx_bytes + MEM_C * declared
        if peak is not None and peak > bound:
            v("memory", kind, "tracemalloc peak %d bytes for %d bytes "
              "received (bound %d)" % (peak, rx_bytes, bound))
    return _res(job, ch, sim, sc, viol, probes, bool(fired) and processed,
                repr(([o.sig() for o in vic.history], desc)), desc,
                extra={"work": work, "peak": peak, "rx": rx_bytes})


def _res(job, ch, sim, sc, viol, probes, nontrivial, tag, desc, extra=None):
    key = hashlib.sha256(json.dumps([sc, tag], sort_keys=True,
                                    default=str).encode()).hexdigest()
    h = hashlib.sha256()
    h.update(tag.encode())
    h.update(json.dumps([x["sig"] for x in viol]).encode())
    h.update(ch.digest().encode())
    for l in sim.links:
        h.update(bytes(l.c2s.wire_log))
        h.update(bytes(l.s2c.wire_log))
    return {"violations": viol, "nontrivial": nontrivial, "key": key,
            "digest": h.hexdigest(), "faults": dict(sim.stats),
            "probes": probes, "steps": sim.steps, "order": "",
            "states": ["%s/%s/%s" % (sc["version"], sc.get("flavour"),
                                     (desc or {}).get("kind"))],
            "streams": ch.streams(), "inconclusive": False,
            "sample": {"scenario": sc, "mutation": desc, "meters": extra}}
