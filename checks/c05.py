"""C05 - peer credentials are recorded only after proof of possession."""

import hashlib
import json

from sim import kernel
kernel.boot()
from sim import nodes, scen, taps, byz, creds, script as sim_script  # noqa

ID = "C05"
LEVEL = "exploration"
RULE = ("job = seed -> proof site x corruption class x key type x version. "
        "Sites: ServerKeyExchange signature (TLS<=1.2: RSA, ECDSA, DSA, "
        "EdDSA, SRP+cert), server CertificateVerify (TLS 1.3), client "
        "CertificateVerify (TLS<=1.2 and 1.3), post-handshake client auth, "
        "SRP password proof, TLS 1.3 PSK binder, Finished, implicit RSA-kx "
        "proof, Checker fingerprint.  Classes: signature bit flip (first / "
        "middle / last byte), empty, truncated, extended, other scheme, "
        "signature lifted from another handshake of the same key, present "
        "certificate A but hold key B, proof omitted, wrong password, wrong "
        "PSK, flipped binder, flipped Finished.  The peer is the consistent "
        "byzantine endpoint, so its later messages match its lie.  Oracle: "
        "fault fired => the victim's call raises (fatal alert of the "
        "authentication family / TLSAuthenticationError for the Checker) and "
        "no session stays resumable, PHA leaves clientCertChain unchanged; "
        "the fault-free twin of every scenario completes and attributes the "
        "expected identity.  distinct = digest(scenario, site, class); "
        "non-trivial = fault fired (or honest twin completed)"
        ' Further sites/classes: delegated credential (honest twin; flipped delegation; delegation by another key; impostor chain with the credential on the second entry or on the victim entry), post-handshake Finished flipped, SRP user name with no SRP suite offered, DER signatures extended INSIDE the SEQUENCE.'
        ' Consistent liar that really signs ServerKeyExchange with an unoffered hash; identical signatures in two different handshakes (proof independent of the transcript).'
        ' SRP: a password-less client sending A = k*N (k = 0,1,2,3,7) with premaster 0.  Checker site in both roles, with the transport failing exactly at the refusal alert (the refused session must not stay resumable).  liar_scheme: the client really signs (in-handshake and post-handshake CertificateVerify) under a scheme that does not belong to its key.'
        ' An ordinary certificate handshake whose ClientHello merely names an SRP user (extension, no SRP suite) must not record that name.')
LEVEL_TEXT = ("Seeded search over (site, corruption, key type, version); "
              "every run also executes the honest twin so that the oracle is "
              "shown not to alarm on valid proofs.")
LEVEL_NOTE = ("Trusted: the interposer; tlslite's own signer is used by the "
              "byzantine peer to produce 'other transcript' signatures. "
              "Delegated credentials are built with tlslite's own "
              "Credential / DelegatedCredential classes (as tests/tlstest.py "
              "does).")
BUDGET = {"quick": 300, "thorough": 1200}
CHUNK = 8
SITES = ["ske_sig", "srv_cv13", "cli_cv12", "cli_cv13", "pha", "srp",
         "psk", "finished", "rsa_kx", "checker", "dc"]
DC_ALGS = ["rsa_pss_pss_sha256", "ed25519", "ecdsa_secp256r1_sha256",
           "ecdsa_secp384r1_sha384"]
PROBES = SITES + ["flip", "empty", "trunc", "extend", "degenerate",
                  "other_scheme",
                  "other_transcript", "wrong_key", "omitted", "honest_ok",
                  "pha_finished", "srp_no_suite", "unoffered_scheme",
                  "dc_class_0",
                  "dc_class_1", "dc_class_2", "dc_class_3"]
COMPONENTS_REAL = ["tlslite verification code of both roles, key classes"]
COMPONENTS_STUB = ["socket", "os.urandom", "clock", "byzantine peer"]
ASSUMPTIONS = ["one corruption per run"]

AUTH_ALERTS = {51, 47, 20, 10, 40, 115, 50, 42, 21, 71, 43, 46}


def plan(tier, base_seed):
    n = {"quick": 3300, "thorough": 300000}[tier]
    jobs = [{"seed": base_seed * 1000003 + i, "site": SITES[i % len(SITES)]}
            for i in range(n)]
    for j in jobs[:3]:
        j["keep"] = True
    return jobs


def mutate_sig(sig, cls, ch):
    b = bytearray(sig)
    if cls == "flip":
        pos = [0, len(b) // 2, len(b) - 1][ch.draw(3, "m.pos")] if b else 0
        if b:
            b[pos] ^= [1, 0x80, 0xff][ch.draw(3, "m.mask")]
        return b
    if cls == "empty":
        return bytearray()
    if cls == "trunc":
        return b[:-1 - ch.draw(min(8, max(1, len(b) - 1)), "m.n")]
    if cls == "extend":
        if len(b) >= 2 and b[0] == 0x30 and b[1] == len(b) - 2 and \
                b[1] + 3 < 0x80 and ch.draw(2, "m.inside") == 1:
            # DER (r, s): the extra material goes INSIDE the SEQUENCE, with
            # a consistent outer length
            return bytearray([0x30, b[1] + 3]) + b[2:] + bytearray([2, 1, 0])
        return b + bytearray(1 + ch.draw(4, "m.n"))
    if cls == "degenerate":
        # structurally valid but degenerate values: DER (r, s) with 0 / 1,
        # all-zero / all-one blobs of the original length, integer 1
        n = len(b)
        opts = [bytes.fromhex("3006020101020100"),      # r=1, s=0
                bytes.fromhex("3006020100020100"),      # r=0, s=0
                bytes.fromhex("3006020100020101"),      # r=0, s=1
                bytes.fromhex("3006020101020101"),      # r=1, s=1
                bytes(n), b"\xff" * n, bytes(max(0, n - 1)) + b"\x01"]
        return bytearray(opts[ch.draw(len(opts), "m.deg")])
    raise ValueError(cls)


def scenario_for(site, ch):
    """Returns (scenario, victim, extra) for a proof site."""
    vers12 = [(3, 3), (3, 1), (3, 2), (3, 0)]
    if site == "ske_sig":
        ver = vers12[ch.draw(4, "s.ver")]
        k = ["rsa", "ecdsa", "dsa", "ed25519", "srp_cert", "ecdsa384"][
            ch.draw(6, "s.key")]
        if k in ("ed25519",) and ver < (3, 3):
            ver = (3, 3)
        sc = {"version": list(ver),
              "cset": {"minVersion": list(ver), "maxVersion": list(ver)},
              "sset": {"minVersion": list(ver), "maxVersion": list(ver)}}
        if k == "srp_cert":
            if ver == (3, 0):
                ver = (3, 1)
                sc["cset"].update(minVersion=[3, 1], maxVersion=[3, 1])
                sc["sset"].update(minVersion=[3, 1], maxVersion=[3, 1])
                sc["version"] = [3, 1]
            sc.update(flavour="srp_cert", skey="rsa")
        else:
            sc.update(flavour="cert", skey=k)
            kx = {"rsa": ["dhe_rsa", "ecdhe_rsa"][ch.draw(2, "s.kx")],
                  "ecdsa": "ecdhe_ecdsa", "ecdsa384": "ecdhe_ecdsa",
                  "ed25519": "ecdhe_ecdsa", "dsa": "dhe_dsa"}[k]
            sc["cset"]["keyExchangeNames"] = [kx]
        return sc, "c"
    if site == "srv_cv13":
        k = ["rsa", "ecdsa", "ed25519", "ed448", "ecdsa384", "rsapss"][
            ch.draw(6, "s.key")]
        sc = {"version": [3, 4], "flavour": "cert", "skey": k,
              "cset": {"minVersion": [3, 4], "maxVersion": [3, 4]},
              "sset": {"minVersion": [3, 4], "maxVersion": [3, 4]}}
        return sc, "c"
    if site in ("cli_cv12", "cli_cv13", "pha"):
        if site == "cli_cv12":
            ver = vers12[ch.draw(4, "s.ver")]
            ck = ["rsa", "ecdsa", "dsa", "ed25519"][ch.draw(4, "s.key")]
            if ck == "ed25519" and ver < (3, 3):
                ck = "rsa"
        else:
            ver = (3, 4)
            ck = ["rsa", "ecdsa", "ed25519"][ch.draw(3, "s.key")]
        sc = {"version": list(ver), "flavour": "cert", "skey": "rsa",
              "ckey": ck, "req_cert": site != "pha",
              "cset": {"minVersion": list(ver), "maxVersion": list(ver)},
              "sset": {"minVersion": list(ver), "maxVersion": list(ver)}}
        return sc, "s"
    if site == "dc":
        k = ["rsa", "ecdsa", "ed25519"][ch.draw(3, "s.key")]
        sc = {"version": [3, 4], "flavour": "cert", "skey": k,
              "dc": [DC_ALGS[ch.draw(4, "s.dcalg")]],
              "cset": {"minVersion": [3, 4], "maxVersion": [3, 4],
                       "dc_sig_algs": list(DC_ALGS),
                       "certificate_compression_receive": []},
              "sset": {"minVersion": [3, 4], "maxVersion": [3, 4],
                       "certificate_compression_send": []}}
        return sc, "c"
    if site == "srp":
        ver = [(3, 3), (3, 1), (3, 2)][ch.draw(3, "s.ver")]
        sc = {"version": list(ver),
              "flavour": ["srp", "srp_cert"][ch.draw(2, "s.fl")],
              "skey": "rsa",
              "cset": {"minVersion": list(ver), "maxVersion": list(ver)},
              "sset": {"minVersion": list(ver), "maxVersion": list(ver)}}
        return sc, "s"
    if site == "psk":
        sc = {"version": [3, 4], "flavour": "psk", "skey": "rsa",
              "cset": {"minVersion": [3, 4], "maxVersion": [3, 4],
                       "pskConfigs": [list(scen.PSK_HEX)]},
              "sset": {"minVersion": [3, 4], "maxVersion": [3, 4],
                       "pskConfigs": [list(scen.PSK_HEX)]}}
        if ch.draw(2, "s.mode"):
            sc["cset"]["psk_modes"] = ["psk_ke"]
        return sc, "s"
    if site == "finished":
        sc = scen.draw_flavour(ch, label="s")
        return sc, "cs"[ch.draw(2, "s.victim")]
    if site == "rsa_kx":
        ver = vers12[ch.draw(4, "s.ver")]
        sc = {"version": list(ver), "flavour": "cert", "skey": "rsa",
              "cset": {"minVersion": list(ver), "maxVersion": list(ver),
                       "keyExchangeNames": ["rsa"]},
              "sset": {"minVersion": list(ver), "maxVersion": list(ver)}}
        return sc, "c"
    if site == "checker":
        if ch.draw(3, "s.chkside") == 1:
            # the server's Checker refuses the client's certificate
            sc = scen.draw_flavour(ch, label="s", allow=["cert_cauth"])
            return sc, "s"
        sc = scen.draw_flavour(ch, label="s", allow=["cert", "cert_cauth",
                                                     "hrr"])
        return sc, "c"
    raise ValueError(site)


def run(job, streams=None):
    from tlslite.errors import (TLSLocalAlert, TLSRemoteAlert, TLSAlert,
                                TLSAuthenticationError, TLSAbruptCloseError)
    seed = job["seed"]
    site = job["site"]
    ch = kernel.Chooser(seed=seed) if streams is None else \
        kernel.Chooser(streams=streams)
    sc, victim = scenario_for(site, ch)
    pname = "s" if victim == "c" else "c"
    ver = tuple(sc["version"])
    viol = []
    probes = {site: 1}
    cls = None
    same_sig = []
    ctx = ["[site=%s victim=%s scenario=%s]" % (
        site, victim, json.dumps(sc, sort_keys=True))]

    def v(rule, sig, msg):
        viol.append({"rule": rule, "sig": "%s|%s" % (site, sig),
                     "msg": msg + " " + ctx[0]})

    def build(chooser, rules, scx, wrong_key=None, seed_=seed):
        sim = nodes.new_run(seed_, chooser=chooser, max_steps=100000,
                            sched="first")
        pair = nodes.Pair(sim, scx, policy="ideal")
        peer = pair.s if victim == "c" else pair.c
        vic = pair.c if victim == "c" else pair.s
        ip = byz.Interposer(peer.conn, rules)
        return sim, pair, peer, vic, ip

    # ---------------- honest twin
    sim0, pair0, peer0, vic0, ip0 = build(kernel.Chooser(streams={}), [], sc)
    oc0, os0, st0 = pair0.handshake()
    honest_ok = oc0.kind == "ok" and os0.kind == "ok"
    if site not in ("checker",) and not honest_ok:
        v("honest_twin_failed", "%s|%s" % (type(oc0.exc).__name__,
                                           type(os0.exc).__name__),
          "fault-free twin did not complete: client=%r server=%r" %
          (oc0.exc, os0.exc))
        return _res(job, ch, sim0, sc, viol, probes, False, "honest_failed")
    if honest_ok:
        probes["honest_ok"] = 1
        s0 = vic0.conn.session
        # identity attribution of the honest run
        if victim == "c" and sc.get("skey") and sc["flavour"] != "psk" and \
                not (sc["flavour"] in ("srp",)):
            want = creds.load("server", sc["skey"])[0]
            if s0.serverCertChain is None or \
                    s0.serverCertChain.x509List[0].bytes != \
                    want.x509List[0].bytes:
                v("wrong_attribution", "server_chain", "honest run recorded "
                  "a different server chain")
        if victim == "s" and sc.get("ckey") and sc.get("req_cert"):
            want = creds.load("client", sc["ckey"])[0]
            if s0.clientCertChain is None or \
                    s0.clientCertChain.x509List[0].bytes != \
                    want.x509List[0].bytes:
                v("wrong_attribution", "client_chain", "honest run recorded "
                  "a different client chain")

    # ---------------- choose the corruption
    fired = []
    rules = []
    awf = None
    sc2 = json.loads(json.dumps(sc))
    pre_setup = None
    post = None
    SIGCLS = ["flip", "empty", "trunc", "extend", "other_scheme",
              "other_transcript", "wrong_key", "omitted", "degenerate",
              "degenerate",
              "other_transcript", "other_transcript", "liar_scheme"]
    LIAR = {"rsa": [(4, 1), (8, 9), (2, 1), (8, 10), (4, 3)],
            "ecdsa": [(5, 3), (6, 3), (8, 4), (4, 1), (2, 3)],
            "ed25519": [(8, 8), (4, 3), (8, 4)]}

    def sig_rule(clsname, attr_sig, cls_):
        def rule(msg, c):
            if type(msg).__name__ != clsname:
                return None
            if cls_ in ("flip", "empty", "trunc", "extend", "degenerate"):
                setattr(msg, attr_sig, mutate_sig(getattr(msg, attr_sig),
                                                  cls_, ch))
                fired.append(cls_)
                return [msg]
            if cls_ == "omitted":
                fired.append(cls_)
                return []
            return None
        return rule

    if site == "pha" and ch.draw(4, "c.phafin") == 1:
        # valid Certificate and CertificateVerify, wrong Finished of the
        # post-handshake flight (the handshake's own Finished stays intact)
        cls = "flip"
        nfin = [0]

        def rule(msg, c):
            if type(msg).__name__ != "Finished":
                return None
            nfin[0] += 1
            if nfin[0] < 2:
                return None
            msg.verify_data = mutate_sig(msg.verify_data, "flip", ch)
            fired.append("bad_pha_finished")
            return [msg]
        rules.append(rule)
        probes["pha_finished"] = 1
    elif site == "ske_sig" and ver == (3, 3) and \
            sc.get("skey") in ("rsa", "ecdsa", "ecdsa384", "dsa") and \
            ch.draw(5, "c.unoffered") == 1:
        # a server that does not care about signature_algorithms: it really
        # signs (consistently) with a hash the client never offered
        cls = "other_scheme"
        for k_ in ("rsaSigHashes", "ecdsaSigHashes", "dsaSigHashes"):
            sc2["cset"][k_] = ["sha256"]
        liar_hash = ["sha1", "sha384", "sha224"][ch.draw(3, "c.liarhash")]
        sc2["_liar_hash"] = liar_hash
        fired.append("ske_signed_with_unoffered_%s" % liar_hash)
        probes["unoffered_scheme"] = 1
    elif site in ("ske_sig", "srv_cv13", "cli_cv12", "cli_cv13", "pha"):
        cls = SIGCLS[ch.draw(len(SIGCLS), "c.cls")]
        clsname = "ServerKeyExchange" if site == "ske_sig" else \
            "CertificateVerify"
        if site == "ske_sig" and cls == "omitted":
            cls = "empty"
        if cls == "liar_scheme":
            # consistent liar: the client really signs with its key, but
            # under a scheme that does not belong to that key (other family,
            # other curve, PKCS#1 v1.5 in TLS 1.3)
            if site in ("pha", "cli_cv13") and sc.get("ckey") in LIAR:
                alts = LIAR[sc["ckey"]]
                sc2["_liar_scheme"] = list(alts[ch.draw(len(alts),
                                                        "c.liars")])
                probes["liar_scheme"] = 1
            else:
                cls = "flip"
        if cls in ("flip", "empty", "trunc", "extend", "omitted",
                   "degenerate"):
            rules.append(sig_rule(clsname, "signature", cls))
        elif cls == "other_scheme":
            def rule(msg, c):
                if type(msg).__name__ != clsname:
                    return None
                if site == "ske_sig":
                    if ver < (3, 3):
                        return None
                    old = (msg.hashAlg, msg.signAlg)
                    msg.hashAlg = 2 if msg.hashAlg != 2 else 4
                else:
                    old = msg.signatureAlgorithm
                    if old is None or ver < (3, 3):
                        return None     # no algorithm field before TLS 1.2
                    alt = [(4, 1), (4, 3), (8, 4), (8, 7), (5, 1), (2, 1)]
                    alt = [a for a in alt if a != tuple(old)]
                    msg.signatureAlgorithm = alt[ch.draw(len(alt), "c.alt")]
                fired.append(cls)
                return [msg]
            rules.append(rule)
        elif cls == "other_transcript":
            # valid signature by the same key, from another handshake
            lifted = []
            simx, pairx, peerx, vicx, ipx = build(
                kernel.Chooser(streams={}),
                [lambda m, c: lifted.append(m) or None
                 if type(m).__name__ == clsname else None], sc,
                seed_=seed + 7919)
            if site == "pha":
                lifted_sig = None
            else:
                pairx.handshake()
                lifted_sig = bytearray(lifted[0].signature) if lifted and \
                    getattr(lifted[0], "signature", None) else None

            def rule(msg, c):
                if type(msg).__name__ != clsname or lifted_sig is None:
                    return None
                if bytes(msg.signature) == bytes(lifted_sig):
                    # two different handshakes (other randoms) carry the very
                    # same signature: the signed content does not depend on
                    # the transcript
                    same_sig.append(type(msg).__name__)
                    return None
                msg.signature = bytearray(lifted_sig)
                fired.append(cls)
                return [msg]
            rules.append(rule)
        elif cls == "wrong_key":
            # present certificate A, hold key B (same type)
            role = "server" if pname == "s" else "client"
            kname = sc["skey"] if pname == "s" else sc["ckey"]
            other = {"rsa": "rsa_nonca" if role == "server" else None,
                     "ecdsa": "ecdsa_nonca" if role == "server" else None
                     }.get(kname)
            if other is None:
                cls = "flip"
                rules.append(sig_rule(clsname, "signature", "flip"))
            else:
                sc2["_wrong_key"] = [role, other]
                fired.append(cls)
    elif site == "srp" and sc.get("flavour") == "srp_cert" and \
            ch.draw(3, "c.srpcls") == 1:
        # name an SRP user in the ClientHello but offer only certificate
        # (RSA key transport / DHE_RSA) suites: the password proof is
        # omitted altogether
        cls = "omitted"

        def rule(msg, c):
            if type(msg).__name__ != "ClientHello":
                return None
            msg.cipher_suites = [0x002f, 0x0035, 0x0033, 0x0039] + [
                x for x in msg.cipher_suites if x in (0x00ff, 0x5600)]
            fired.append("srp_name_without_srp_suite")
            return [msg]
        rules.append(rule)
        probes["srp_no_suite"] = 1
    elif site == "srp" and ch.draw(4, "c.srpname") == 1:
        # an ordinary certificate handshake whose ClientHello merely NAMES an
        # SRP user (extension only, no SRP suite, no password proof): the
        # handshake may complete, but the name must not be attributed
        cls = "omitted"
        sc2 = {"version": sc["version"], "flavour": "cert", "skey": "rsa",
               "cset": dict(sc["cset"]), "sset": dict(sc["sset"])}
        if sc["flavour"] == "srp_cert" and ch.draw(2, "c.srpdb") == 1:
            sc2["flavour"] = "srp_cert"     # server that has a verifier DB
            sc2["_client_flavour"] = "cert"

        def rule(msg, c):
            if type(msg).__name__ != "ClientHello":
                return None
            from tlslite.extensions import SRPExtension
            msg.extensions = list(msg.extensions or []) + [
                SRPExtension().create(bytearray(b"admin"))]
            fired.append("srp_name_in_certificate_handshake")
            return [msg]
        rules.append(rule)
        probes["srp_name_only"] = 1
    elif site == "srp" and ch.draw(3, "c.srpdeg") == 1:
        # a client that does not know the password sends A = k*N, for which
        # the server's premaster secret is the constant 0 whatever the
        # verifier is (RFC 5054 2.5.4: A % N == 0 must abort)
        cls = "degenerate"
        sc2["srp_pass"] = "not-the-password"
        sc2["_srp_k"] = [0, 1, 2, 3, 7][ch.draw(5, "c.srpk")]
        fired.append("srp_A_is_%d_times_N" % sc2["_srp_k"])
        probes["srp_degenerate_A"] = 1
    elif site == "srp":
        cls = "wrong_key"
        sc2["srp_pass"] = "not-the-password"
        fired.append("bad_password")
    elif site == "psk":
        cls = ["wrong_key", "flip"][ch.draw(2, "c.cls")]
        if cls == "wrong_key":
            sc2["cset"]["pskConfigs"] = [[scen.PSK_HEX[0], "ff" * 32]]
            fired.append("bad_psk")
        else:
            def rule(msg, c):
                if type(msg).__name__ != "ClientHello":
                    return None
                from tlslite.constants import ExtensionType
                e = msg.getExtension(ExtensionType.pre_shared_key)
                if e is None or not e.binders:
                    return None
                e.binders[0] = bytearray(e.binders[0])
                e.binders[0][ch.draw(len(e.binders[0]), "m.pos")] ^= 1
                fired.append("bad_binder")
                return [msg]
            rules.append(rule)
    elif site == "finished":
        cls = "flip"

        def rule(msg, c):
            if type(msg).__name__ != "Finished":
                return None
            msg.verify_data = mutate_sig(msg.verify_data, "flip", ch)
            fired.append("bad_finished")
            return [msg]
        rules.append(rule)
    elif site == "dc":
        k = ch.draw(4, "c.dccls")
        from tlslite.extensions import DelegatedCredentialCertExtension as DCE
        if k == 0:
            cls = "flip"

            def rule(msg, c):
                if type(msg).__name__ != "Certificate" or fired:
                    return None
                for e in msg.certificate_list[0].extensions or []:
                    if isinstance(e, DCE):
                        dc_ = e.delegated_credential
                        dc_.signature = mutate_sig(dc_.signature, "flip", ch)
                        fired.append("dc_sig_flip")
                return [msg]
            rules.append(rule)
        elif k == 1 and sc["skey"] in ("rsa", "ecdsa"):
            # delegation signed by a key that is not the certificate's
            cls = "wrong_key"
            sc2["dc"] = [sc["dc"][0], sc["skey"] + "_nonca"]
            fired.append("dc_signed_by_other_key")
        else:
            # impostor: [victim's certificate, own certificate]; the
            # credential is delegated by the impostor's own key (k == 2: and
            # hung on the impostor's entry; k == 3: on the victim's entry)
            cls = "other_transcript" if k == 3 else "wrong_key"
            sc2["dc_extra_chain"] = {"rsa": "ecdsa", "ecdsa": "rsa",
                                     "ed25519": "rsa"}[sc["skey"]]
            move = k != 3

            def rule(msg, c):
                if type(msg).__name__ != "Certificate" or fired:
                    return None
                cl_ = msg.certificate_list
                if len(cl_) < 2:
                    return None
                if move:
                    exts = [e for e in cl_[0].extensions or []
                            if isinstance(e, DCE)]
                    cl_[0].extensions = [e for e in cl_[0].extensions or []
                                         if not isinstance(e, DCE)]
                    cl_[1].extensions = list(cl_[1].extensions or []) + exts
                fired.append("dc_on_impostor_entry" if move else
                             "dc_for_other_certificate")
                return [msg]
            rules.append(rule)
        probes["dc_class_%d" % k] = 1
    elif site == "rsa_kx":
        cls = "wrong_key"
        sc2["_wrong_key"] = ["server", "rsa_nonca"]
        fired.append("wrong_key")
    elif site == "checker":
        cls = "wrong_key"
        from tlslite.api import Checker
        sc2["_checker_" + victim] = Checker(x509Fingerprint="00" * 20)
        fired.append("checker")
        # the transport may fail exactly while the refusal alert is written
        awf = [None, None, "timeout", "epipe", "reset"][ch.draw(5, "c.awf")]
    probes[cls] = 1
    ctx[0] = "[site=%s class=%s victim=%s scenario=%s]" % (
        site, cls, victim, json.dumps({k: v_ for k, v_ in sc2.items()
                                       if not k.startswith("_checker")},
                                      sort_keys=True, default=str))

    # ---------------- faulted run
    sim, pair, peer, vic, ip = build(ch, rules, sc2)
    awf_tap = None
    if awf:
        awf_tap = taps.AlertWriteFault(vic.conn, vic.sock, awf,
                                       fatal_only=False)
    def install_liar(conn):
        forced = tuple(sc2["_liar_scheme"])
        orig_l = conn._sigHashesToList

        def lying(settings, privateKey=None, certList=None, version=(3, 3)):
            if privateKey is not None and version == (3, 4):
                fired.append("signed_under_%s_%s" % forced)
                return [forced]
            return orig_l(settings, privateKey, certList, version)
        conn._sigHashesToList = lying
    if sc2.get("_liar_scheme") and site == "cli_cv13":
        install_liar(peer.conn)
    if sc2.get("_liar_hash"):
        lh = sc2["_liar_hash"]
        peer.conn._pickServerKeyExchangeSig = \
            lambda settings, clientHello, certList=None, private_key=None, \
            version=(3, 3), check_alt=True: (lh, certList, private_key)
    if sc2.get("_wrong_key"):
        role, other = sc2["_wrong_key"]
        wk = creds.load("server", other)[1]
        orig_load = creds.load

        def patched(r, n):
            chain, key = orig_load(r, n)
            if r == role and n == (sc["skey"] if role == "server"
                                   else sc["ckey"]):
                return chain, wk
            return chain, key
        creds.load = patched
    srp_orig = None
    if "_srp_k" in sc2:
        from tlslite import keyexchange as KX
        from tlslite.utils.cryptomath import numberToByteArray
        srp_orig = KX.SRPKeyExchange.processServerKeyExchange
        k_ = sc2["_srp_k"]

        def evil(self_, pk, ske):
            srp_orig(self_, pk, ske)
            self_.A = k_ * ske.srp_N
            return numberToByteArray(0)
        KX.SRPKeyExchange.processServerKeyExchange = evil
    try:
        oc, os_, st = pair.handshake()
    finally:
        if sc2.get("_wrong_key"):
            creds.load = orig_load
        if srp_orig is not None:
            KX.SRPKeyExchange.processServerKeyExchange = srp_orig
    vo = oc if victim == "c" else os_
    po = os_ if victim == "c" else oc
    verdict = False
    if site == "pha":
        if oc.kind == "ok" and os_.kind == "ok":
            before = pair.s.conn.session.clientCertChain
            eps = {"c": pair.c, "s": pair.s}
            if sc2.get("_liar_scheme"):
                install_liar(pair.c.conn)

            def op_gen(ep, op):
                if op[1] == "pha":
                    return lambda: ep.conn.request_post_handshake_auth()
                if op[1] == "read0":
                    return lambda: ep.conn.readAsync(None, 0)
            st2 = sim_script.run_script(
                sim, eps, [["s", "pha"], ["c", "read0"], ["s", "read0"]],
                op_gen)
            after = pair.s.conn.session.clientCertChain
            srd = [o for o in pair.s.history if o.desc[0] == "read0"]
            if fired:
                verdict = True
                if after is not before and after is not None:
                    v("identity_without_proof", "pha|%s" % cls,
                      "post-handshake auth recorded the client chain "
                      "although its proof was corrupted (%s)" % cls)
                if srd and srd[-1].kind == "ok" and cls != "omitted":
                    v("corrupt_proof_accepted", "pha|%s" % cls,
                      "server read() returned normally after a corrupted "
                      "post-handshake proof")
            else:
                if after is None:
                    v("honest_twin_failed", "pha",
                      "honest post-handshake auth did not record the chain: "
                      "%r" % [(o.desc, o.exc) for o in pair.s.history])
                verdict = True
        return _res(job, ch, sim, sc, viol, probes, verdict, "pha")

    if cls == "other_transcript" and same_sig:
        verdict = True
        v("proof_independent_of_transcript", "%s|%s" % (site, sc.get(
            "ckey" if victim == "s" else "skey")),
          "the %s of two different handshakes (other randoms, same key) "
          "carries the very same signature: what is signed does not depend "
          "on the transcript, so the proof can be replayed" % same_sig[0])
    if fired and fired[0] == "srp_name_in_certificate_handshake":
        verdict = vo.kind in ("ok", "exc")
        name = vic.conn.session.srpUsername if vic.conn.session else None
        if vo.kind == "ok" and name:
            v("identity_without_proof", "srp_name_recorded",
              "certificate handshake completed and the server session names "
              "SRP user %r although no SRP exchange took place" % (name,))
    elif fired:
        verdict = True
        if vo.kind == "ok":
            v("identity_without_proof", "%s" % cls,
              "victim completed the handshake although the peer's proof "
              "was corrupted / missing (%s)" % (fired[0],))
        elif vo.kind == "exc":
            e = vo.exc
            # C05 only demands rejection; the *kind* of failure (alert
            # first, library exception types) is judged by C08.
            if awf_tap is not None and awf_tap.fired:
                probes["alert_write_fault"] = 1
            if site == "checker" and not (
                    awf_tap is not None and awf_tap.fired and
                    isinstance(e, OSError)):
                if not isinstance(e, TLSAuthenticationError):
                    v("wrong_error", type(e).__name__, "Checker mismatch "
                      "surfaced as %r" % (e,))
            s = vic.conn.session
            if s is not None and s.resumable:
                v("resumable_after_failure", cls, "victim session left "
                  "resumable after a failed proof")
        else:
            v("liveness", "pending", "victim handshake never finished")
    return _res(job, ch, sim, sc, viol, probes, verdict,
                repr((oc.sig(), os_.sig(), cls, fired)))


def _res(job, ch, sim, sc, viol, probes, nontrivial, tag):
    key = hashlib.sha256(json.dumps([{k: v for k, v in sc.items()
                                      if not k.startswith("_")}, tag],
                                    sort_keys=True,
                                    default=str).encode()).hexdigest()
    h = hashlib.sha256()
    h.update(tag.encode())
    h.update(json.dumps([x["sig"] for x in viol]).encode())
    h.update(ch.digest().encode())
    for l in sim.links:
        h.update(bytes(l.c2s.wire_log))
        h.update(bytes(l.s2c.wire_log))
    return {"violations": viol, "nontrivial": nontrivial, "key": key,
            "digest": h.hexdigest(), "faults": dict(sim.stats),
            "probes": probes, "steps": sim.steps, "order": "",
            "states": [tag[-50:]],
            "streams": ch.streams(), "inconclusive": False,
            "sample": {"scenario": {k: v for k, v in sc.items()
                                    if not k.startswith("_")}, "tag": tag}}
