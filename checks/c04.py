"""C04 - tampering with the handshake in flight cannot yield two endpoints
that disagree (incl. downgrade sentinel and FALLBACK_SCSV)."""

import hashlib
import json

from sim import kernel
kernel.boot()
from sim import nodes, scen, taps, views, mitm, net, observe  # noqa: E402

ID = "C04"
LEVEL = "exploration"
RULE = ("job = seed -> scenario with version *ranges* on both sides (so that "
        "downgrades exist) x flavour {cert RSA/ECDSA, DHE/ECDHE/RSA kx, "
        "client auth, SRP, anon, TLS 1.3 PSK, HRR, session-ID / ticket "
        "resumption} ; un-attacked baseline run of the same seed, then an "
        "attacked run with a man in the middle: bit flips at drawn positions "
        "of plaintext flights (masks 0x01/0x80/0xff), whole-record drop / "
        "dup / swap, structured rewrites of ClientHello and ServerHello "
        "(strip TLS 1.3, lower legacy version, restrict / reorder suites, "
        "strip EMS / EtM / groups / sig algs / ALPN / SNI / "
        "record_size_limit, change session_id, change selected suite or "
        "version), injected warning alerts and CCS, flips in encrypted "
        "flights; plus the fallback-retry scenario.  Oracle: never (both "
        "complete and views differ); both complete => views equal the "
        "baseline's; a 1.3-capable server negotiating <= 1.2 carries the RFC "
        "8446 sentinel and a 1.3-capable client aborts right after that "
        "ServerHello; a fallback retry with FALLBACK_SCSV against a higher-"
        "capable server is refused with inappropriate_fallback.  distinct = "
        "digest(scenario, attack); non-trivial = the attack altered traffic "
        "that at least one endpoint processed"
        ' Also: ticket-issuing servers with flips aimed at the clear-text RFC 5077 NewSessionTicket (client must hold exactly what the server issued), and the TLS 1.1 sentinel of servers capped at TLS 1.2.'
        ' Injected warnings include half an alert (one byte); after both completed the sender of the attacked direction closes and its peer must read a plain end of stream; the sentinel must be ABSENT when the server negotiated its own maximum.'
        " Alert-write faults: an endpoint's transport fails (timeout / EPIPE / reset) exactly while it writes a fatal alert - a detected tamper must not turn into a completed handshake.  Sweep family: EVERY byte of the plaintext handshake records of fixed flows (TLS 1.3 full / HelloRetryRequest, TLS 1.2 resumption; thorough: + tickets) is flipped once; both ends completing on transcripts that differ is a violation (transcripts_differ)."
        ' Resumption flows may offer a session that dates from when the client only spoke TLS 1.2 (both ends meanwhile TLS 1.3 capable): the resumed ServerHello must carry the sentinel too.'
        ' Attack hrr_group (HelloRetryRequest asking for another supported group).  Poisoning oracle: the attacked connection uses settings objects with application lifetime; a later untouched connection with the same objects must negotiate like the baseline (family poison enumerates every structured attack on three flows).')
LEVEL_TEXT = ("Seeded fault search over the plaintext part of every flight "
              "(all byte positions are reachable; quick samples them, "
              "thorough covers them densely) and over structured downgrade "
              "rewrites, judged against the un-attacked baseline of the same "
              "seed - determinism makes 'same honest choices' exact.")
LEVEL_NOTE = ("Trusted: simulator, MITM; the attacker re-encodes hellos with "
              "tlslite's own ClientHello/ServerHello classes.")
BUDGET = {"quick": 300, "thorough": 1200}
CHUNK = 8
ATTACKS = ["bitflip", "drop", "dup", "swap", "strip13", "lower_version",
           "restrict_suites", "reorder_suites", "strip_ext", "session_id",
           "sh_suite", "sh_version", "sh_strip_ext", "inject_warning",
           "inject_ccs", "flip_encrypted", "fallback", "hrr_group"]
PROBES = ATTACKS + ["both_complete_same", "sentinel_seen",
                    "client_aborted_on_sentinel", "fallback_refused",
                    "resumption", "hrr", "tls13_base", "tls12_base",
                    "fallback_with_session", "ticket_compared",
                    "close_after_attack", "alert_write_fault",
                    "sweep_tls13_cert", "sweep_tls13_hrr",
                    "sweep_tls12_resume_id", "resume_after_client_upgrade",
                    "poison_checked",
                    "sentinel_tls12_server"]
COMPONENTS_REAL = ["tlslite handshakes (transcript hashing, Finished / "
                   "binder checks, downgrade sentinel, FALLBACK_SCSV)"]
COMPONENTS_STUB = ["socket", "os.urandom", "clock", "on-path attacker"]
ASSUMPTIONS = ["attacker has no key material"]

SENT12 = bytes.fromhex("444f574e47524401")
SENT11 = bytes.fromhex("444f574e47524400")


# sweep family: EVERY byte of the plaintext handshake flights of a few fixed
# flows (preset scenario draws: cfg.hi, cfg.lo, cfg.fl)
SWEEP = [("tls13_cert", {"cfg.hi": [0], "cfg.fl": [0]}),
         ("tls13_hrr", {"cfg.hi": [0], "cfg.fl": [5]}),
         ("tls12_resume_id", {"cfg.hi": [1], "cfg.lo": [1], "cfg.fl": [6]}),
         ("tls12_tickets", {"cfg.hi": [1], "cfg.lo": [1], "cfg.fl": [8]}),
         ("tls12_resume_ticket", {"cfg.hi": [1], "cfg.lo": [1],
                                  "cfg.fl": [7]})]


def sweep_jobs(tier, base_seed):
    """One job per (flow, direction, plaintext handshake record, byte): the
    layout comes from the un-attacked run of the same seed."""
    from tlslite.api import SessionCache
    out = []
    seed = base_seed * 1000003 + 900000
    flows = SWEEP if tier == "thorough" else SWEEP[:3]
    for name, pre in flows:
        ch = kernel.Chooser(streams=dict(pre))
        sc = draw_scenario(ch)
        session = cache = None
        if sc.get("resume"):
            cache = SessionCache()
            r1 = execute(seed + 1, sc, kernel.Chooser(streams={}), None,
                         cache=cache, tag="0")
            session = r1[1].c.conn.session
        r0 = execute(seed, sc, kernel.Chooser(streams={}), None,
                     session=session, cache=cache)
        m0 = r0[2]
        for di, d in enumerate(("c2s", "s2c")):
            for idx, (t, vv, body) in enumerate(m0.seen[d]):
                if t != 22 or (idx > 0 and tuple(sc["cset"]["maxVersion"])
                               == (3, 4) and d == "c2s" and
                               body[:1] != b"\x01"):
                    break
                stride = 1 if len(body) <= 400 or tier == "thorough" else 3
                for pos in range((base_seed % stride), len(body), stride):
                    for mask in ((0, 1, 2) if tier == "thorough" else
                                 (pos % 3,)):
                        p = dict(pre)
                        p.update({"a.kind": [0], "a.dir": [di],
                                  "a.rec": [idx], "a.pos": [pos],
                                  "a.mask": [mask]})
                        out.append({"seed": seed, "fam": "sweep",
                                    "flow": name, "preset": p})
    return out


def plan(tier, base_seed):
    n = {"quick": 2500, "thorough": 500000}[tier]
    jobs = [{"seed": base_seed * 1000003 + i} for i in range(n)]
    for j in jobs[:3]:
        j["keep"] = True
    sw = sweep_jobs(tier, base_seed)
    # every structured attack on the non-resumption flows, followed by an
    # untouched connection that uses the same settings objects
    po = []
    for name, pre in SWEEP[:2] + [("tls12_cert", {"cfg.hi": [1],
                                                  "cfg.fl": [0]})]:
        for ki, kind in enumerate(ATTACKS):
            if kind in ("bitflip", "fallback", "flip_encrypted"):
                continue
            for alt in range(5 if kind == "hrr_group" else 2):
                p = dict(pre)
                p.update({"a.kind": [ki], "a.poison": [1], "a.group": [alt],
                          "a.ext": [alt], "a.suite": [alt], "a.ver": [alt]})
                po.append({"seed": base_seed * 1000003 + 800000 + len(po),
                           "fam": "poison", "flow": name, "preset": p})
    # the sweep first: it is an enumeration, not a sample
    return jobs[:3] + sw + po + jobs[3:]


def draw_scenario(ch):
    hi = [(3, 4), (3, 3), (3, 4), (3, 2)][ch.draw(4, "cfg.hi")]
    lo = [(3, 1), (3, 3), (3, 0), (3, 2)][ch.draw(4, "cfg.lo")]
    if lo > hi:
        lo = hi
    fl = ["cert", "cert_cauth", "srp", "anon", "psk", "hrr", "resume_id",
          "resume_ticket", "tickets"][ch.draw(9, "cfg.fl")]
    sc = {"cset": {"minVersion": list(lo), "maxVersion": list(hi)},
          "sset": {"minVersion": list(lo), "maxVersion": list(hi)},
          "flavour": "cert", "skey": ["rsa", "ecdsa"][ch.draw(2, "cfg.key")]}
    if ch.draw(3, "cfg.smax") == 1 and hi == (3, 4):
        sc["sset"]["maxVersion"] = [3, 3]
    if fl == "cert_cauth":
        sc["ckey"] = "rsa"
        sc["req_cert"] = True
    elif fl == "srp" and hi < (3, 4):
        sc["flavour"] = "srp"
        sc.pop("skey")
    elif fl == "anon" and hi < (3, 4):
        sc["flavour"] = "anon"
        sc.pop("skey")
    elif fl == "psk" and hi == (3, 4):
        sc["flavour"] = "psk"
        sc["cset"]["pskConfigs"] = [list(scen.PSK_HEX)]
        sc["sset"]["pskConfigs"] = [list(scen.PSK_HEX)]
    elif fl == "hrr" and hi == (3, 4):
        sc["cset"]["keyShares"] = []
        sc["hrr"] = True
    elif fl == "tickets":
        # full handshake of a ticket-issuing server
        sc["sset"]["ticketKeys"] = ["33" * 32]
    elif fl in ("resume_id", "resume_ticket"):
        sc["resume"] = fl
        if fl == "resume_ticket":
            sc["sset"]["ticketKeys"] = ["33" * 32]
        if hi == (3, 4) and lo <= (3, 3) and ch.draw(3, "cfg.upg") == 1:
            # the session on offer dates from when the client only spoke
            # TLS 1.2; meanwhile it supports TLS 1.3 like the server
            sc["resume_client_was_12"] = True
    if sc["flavour"] == "cert" and sc.get("skey") == "rsa" and hi < (3, 4):
        kx = ["", "rsa", "dhe_rsa", "ecdhe_rsa"][ch.draw(4, "cfg.kx")]
        if kx:
            sc["cset"]["keyExchangeNames"] = [kx]
    return sc


def rewrite_hello(kind, body, ch, info):
    """body = plaintext of a handshake record holding exactly one hello."""
    from tlslite.messages import ClientHello, ServerHello
    from tlslite.utils.codec import Parser
    from tlslite.constants import ExtensionType as ET
    if body[0] == 1:
        m = ClientHello().parse(Parser(bytearray(body[1:])))
    elif body[0] == 2:
        m = ServerHello().parse(Parser(bytearray(body[1:])))
    else:
        return None
    exts = list(m.extensions or [])
    if kind == "strip13":
        if not any(e.extType == ET.supported_versions for e in exts):
            return None
        exts = [e for e in exts if e.extType not in
                (ET.supported_versions, ET.key_share, ET.pre_shared_key,
                 ET.psk_key_exchange_modes, ET.cookie)]
        m.extensions = exts
        m.cipher_suites = [s for s in m.cipher_suites
                           if not 0x1300 < s < 0x1310]
    elif kind == "lower_version":
        exts = [e for e in exts if e.extType not in
                (ET.supported_versions, ET.key_share, ET.pre_shared_key,
                 ET.psk_key_exchange_modes)]
        m.extensions = exts
        cur = tuple(m.client_version)
        lower = [v for v in [(3, 0), (3, 1), (3, 2)] if v < cur]
        if not lower:
            return None
        m.client_version = lower[ch.draw(len(lower), "a.ver")]
        m.cipher_suites = [s for s in m.cipher_suites
                           if not 0x1300 < s < 0x1310]
    elif kind == "restrict_suites":
        keep = [s for s in m.cipher_suites if s in
                (0x002f, 0x0035, 0x000a, 0xc013, 0xc014, 0xc009, 0xc00a,
                 0x0033, 0x0039, 0xc01d, 0xc020, 0x0034, 0xc018, 0x00ff)]
        if not keep or keep == m.cipher_suites:
            return None
        m.cipher_suites = keep
    elif kind == "reorder_suites":
        if len(m.cipher_suites) < 2:
            return None
        m.cipher_suites = list(reversed(m.cipher_suites))
    elif kind in ("strip_ext", "sh_strip_ext"):
        cands = [e for e in exts if e.extType in (23, 22, 28, 16, 0, 10, 13,
                                                  11, 35, 15, 65281, 51, 43)]
        if not cands:
            return None
        drop = cands[ch.draw(len(cands), "a.ext")]
        info["ext"] = drop.extType
        m.extensions = [e for e in exts if e is not drop]
    elif kind == "session_id":
        sid = bytearray(m.session_id)
        if sid:
            sid[0] ^= 1
        else:
            sid = bytearray(b"\x01" * 32)
        m.session_id = sid
    elif kind == "sh_suite":
        alts = info.get("offered", [])
        alts = [s for s in alts if s != m.cipher_suite and s != 0xff
                and s != 0x5600]
        if not alts:
            return None
        m.cipher_suite = alts[ch.draw(len(alts), "a.suite")]
    elif kind == "hrr_group":
        # HelloRetryRequest asking for another group the client supports
        raw = bytearray(m.write())
        k = bytes(raw).find(b"\x00\x33\x00\x02")
        if k < 0 or bytes(m.random[:4]) != bytes.fromhex("cf21ad74"):
            return None
        cur = int.from_bytes(raw[k + 4:k + 6], "big")
        alts = [g for g in (0x0100, 0x0017, 0x0018, 0x001d, 0x0101)
                if g != cur]
        raw[k + 4:k + 6] = alts[ch.draw(len(alts), "a.group")].to_bytes(
            2, "big")
        return bytes(raw)
    elif kind == "sh_version":
        cur = tuple(m.server_version)
        alts = [v for v in [(3, 0), (3, 1), (3, 2), (3, 3)] if v != cur]
        m.server_version = alts[ch.draw(len(alts), "a.ver")]
    else:
        return None
    out = m.write()
    if bytes(out) == bytes(body):
        return None
    return bytes(out)


def execute(seed, sc, chooser, attack, session=None, cache=None, tag="",
            awf=None, shared=None):
    sim = nodes.new_run(seed, chooser=chooser, max_steps=100000,
                        sched="first")
    if shared is not None:
        sim.settings_objs = shared
    pair = nodes.Pair(sim, sc, policy="ideal",
                      names=("c" + tag, "s" + tag))
    m = mitm.RecordMitm(pair.link, [], sim.stats)
    if attack is not None:
        attack(m, pair)
    tc = taps.SendTap(pair.c.conn)
    ts = taps.SendTap(pair.s.conn)
    tc.keep_plain = ts.keep_plain = True
    if awf:
        # the transport fails exactly while an endpoint writes a fatal alert
        pair.awf = [taps.AlertWriteFault(e.conn, e.sock, awf)
                    for e in (pair.c, pair.s)]
    oc, os_, st = pair.handshake(session=session, cache=cache)
    return sim, pair, m, oc, os_, st, tc, ts


def run(job, streams=None):
    from tlslite.errors import TLSLocalAlert, TLSRemoteAlert
    from tlslite.api import SessionCache
    seed = job["seed"]
    if streams is None and job.get("preset") is not None:
        streams = job["preset"]
    ch = kernel.Chooser(seed=seed) if streams is None else \
        kernel.Chooser(streams=streams)
    sc = draw_scenario(ch)
    viol = []
    probes = {}
    if job.get("fam") == "sweep":
        probes["sweep_" + job["flow"]] = 1
    ctx = ["[scenario=%s]" % json.dumps(sc, sort_keys=True)]

    def v(rule, sig, msg):
        viol.append({"rule": rule, "sig": sig, "msg": msg + " " + ctx[0]})

    # ---- optional first connection for resumption flows
    session = None
    cache = None
    if sc.get("resume"):
        cache = SessionCache()
        sc_first = sc
        if sc.get("resume_client_was_12"):
            sc_first = json.loads(json.dumps(sc))
            sc_first["cset"]["maxVersion"] = [3, 3]
            probes["resume_after_client_upgrade"] = 1
        sim1, pair1, m1, oc1, os1, st1, _, _ = execute(
            seed + 1, sc_first, kernel.Chooser(streams={}), None,
            cache=cache, tag="0")
        if oc1.kind == "ok" and os1.kind == "ok":
            session = pair1.c.conn.session
            probes["resumption"] = 1

    # ---- baseline (un-attacked)
    sim0, pair0, m0, oc0, os0, st0, tc0, ts0 = execute(
        seed, sc, kernel.Chooser(streams={}), None, session=session,
        cache=cache)
    if not (oc0.kind == "ok" and os0.kind == "ok"):
        return _res(job, ch, sim0, sc, viol, probes, False, "honest_failed",
                    None)
    base_c = views.view(pair0.c.conn)
    base_s = views.view(pair0.s.conn)
    bver = tuple(base_c["version"])
    probes["tls13_base" if bver == (3, 4) else "tls12_base"] = 1
    if sc.get("hrr"):
        probes["hrr"] = 1
    lay = {d: list(m0.seen[d]) for d in ("c2s", "s2c")}
    # plaintext prefix of each direction
    plain = {}
    for d in ("c2s", "s2c"):
        k = 0
        for (t, vv, body) in lay[d]:
            if t == 20:
                break
            if bver == (3, 4) and t == 23:
                break
            k += 1
        plain[d] = k
    # a session object is single-use for the resumed run: clone for replays
    session2 = session

    kind = ATTACKS[ch.draw(len(ATTACKS), "a.kind")]
    info = {}
    fired = []
    desc = {"kind": kind}
    if kind == "fallback":
        return run_fallback(job, ch, seed, sc, v, viol, probes, ctx)

    def attack(m, pair):
        if kind == "bitflip":
            d = ["c2s", "s2c"][ch.draw(2, "a.dir")]
            n = max(1, plain[d])
            idx = ch.draw(n, "a.rec")
            nst_i = [i for i in range(plain["s2c"])
                     if lay["s2c"][i][0] == 22 and lay["s2c"][i][2][:1] ==
                     b"\x04"]
            if nst_i and ch.draw(2, "a.nst") == 1:
                # the RFC 5077 NewSessionTicket travels in the clear
                d, idx = "s2c", nst_i[0]
            blen = len(lay[d][idx][2]) if idx < len(lay[d]) else 10
            pos = 5 + ch.draw(max(1, blen), "a.pos")
            if ch.draw(6, "a.hdr") == 1:
                pos = ch.draw(5, "a.hpos")
            mask = [1, 0x80, 0xff][ch.draw(3, "a.mask")]
            m.tampers.append({"dir": d, "idx": idx, "kind": "bitflip",
                              "pos": pos, "mask": mask})
            desc.update(dir=d, idx=idx, pos=pos, mask=mask)
        elif kind in ("drop", "dup", "swap"):
            d = ["c2s", "s2c"][ch.draw(2, "a.dir")]
            n = max(1, plain[d] - (1 if kind == "swap" else 0))
            idx = ch.draw(n, "a.rec")
            m.tampers.append({"dir": d, "idx": idx, "kind": kind})
            desc.update(dir=d, idx=idx)
        elif kind in ("inject_warning", "inject_ccs"):
            d = ["c2s", "s2c"][ch.draw(2, "a.dir")]
            idx = ch.draw(max(1, plain[d]), "a.rec")
            ver = lay[d][idx][1] if idx < len(lay[d]) else (3, 3)
            if kind == "inject_warning":
                # (the last one is half an alert: one byte)
                body = ["0100", "015a", "0164", "0129", "01"][
                    ch.draw(5, "a.al")]
                typ = 21
            else:
                body, typ = "01", 20
            m.tampers.append({"dir": d, "idx": idx, "kind": "inject_plain",
                              "type": typ, "body": body, "ver": list(ver)})
            desc.update(dir=d, idx=idx, body=body)
        elif kind == "flip_encrypted":
            d = ["c2s", "s2c"][ch.draw(2, "a.dir")]
            enc = list(range(plain[d], len(lay[d])))
            if not enc:
                return
            idx = enc[ch.draw(len(enc), "a.rec")]
            blen = len(lay[d][idx][2])
            m.tampers.append({"dir": d, "idx": idx, "kind": "bitflip",
                              "pos": 5 + ch.draw(max(1, blen), "a.pos"),
                              "mask": 1})
            desc.update(dir=d, idx=idx)
        else:
            d = "s2c" if kind.startswith("sh_") or kind == "hrr_group" \
                else "c2s"
            orig = m.on_record

            def on_record(dd, idx_, rec):
                if dd == d and idx_ == 0 and rec[0] == 22:
                    if d == "s2c":
                        chm = [r for r in m.seen["c2s"] if r[0] == 22]
                        if chm:
                            try:
                                info["offered"] = observe.parse_client_hello(
                                    chm[0][2])["suites"]
                            except Exception:
                                pass
                    new = rewrite_hello(kind, rec[2], ch, info)
                    if new is not None:
                        m._count(kind)
                        return net.rec_bytes(rec[0], rec[1], new)
                return orig(dd, idx_, rec)
            m.on_record = on_record
            desc.update(dir=d)

    awf = [None, None, None, "timeout", "epipe", "reset", "timeout"][
        ch.draw(7, "a.awf")]
    poison = not sc.get("resume") and ch.draw(3, "a.poison") == 1
    shared = (nodes.make_settings(sc["cset"]),
              nodes.make_settings(sc["sset"])) if poison else None
    sim, pair, m, oc, os_, st, tc, ts = execute(seed, sc, ch, attack,
                                                session=session2,
                                                cache=cache, awf=awf,
                                                shared=shared)
    fired = list(m.fired)
    if awf and any(t_.fired for t_ in pair.awf):
        probes["alert_write_fault"] = 1
        desc["alert_write_fault"] = awf
    if info.get("ext") is not None:
        desc["ext"] = info["ext"]
    ctx[0] = "[attack=%s scenario=%s]" % (json.dumps(desc),
                                          json.dumps(sc, sort_keys=True))
    probes[kind] = 1
    okc, oks = oc.kind == "ok", os_.kind == "ok"
    if okc and oks:
        vc = views.view(pair.c.conn)
        vs = views.view(pair.s.conn)
        dis = views.disagreements(vc, vs)
        obs = observe.observe(pair, tc, ts)
        for f, a, b in dis:
            if f == "server_chain" and 11 not in obs["server_msgs"]:
                continue
            v("endpoints_disagree", "%s|%s" % (kind, f),
              "both completed under attack with %s: client %r, server %r" %
              (f, a, b))
        for f in ("version", "suite", "ems", "etm", "alpn", "sni",
                  "cipher_name"):
            if vc.get(f) != base_c.get(f):
                v("downgrade", "%s|%s" % (kind, f),
                  "both completed under attack with %s=%r, un-attacked "
                  "negotiation gives %r" % (f, vc.get(f), base_c.get(f)))
        # RFC 5077 ticket: what the client stored is what the server issued
        nst = [m_ for m_ in observe.split_hs(
            [r[4] for r in ts.records if r[0] == 22]) if m_[0] == 4]
        if nst and tuple(vc["version"]) < (3, 4):
            issued = bytes(nst[-1][10:])
            held = [bytes(t_.ticket) for t_ in
                    (pair.c.conn.session.tls_1_0_tickets or [])]
            probes["ticket_compared"] = 1
            if issued and issued not in held:
                v("endpoints_disagree", "%s|ticket" % kind,
                  "both completed under attack but the client holds ticket "
                  "%s..., the server issued %s..." %
                  (held[-1].hex()[:24] if held else None,
                   issued.hex()[:24]))
        # what the attacker put into the handshake must not surface later:
        # the sender of the attacked direction closes, its peer must see a
        # plain end of stream
        dd = desc.get("dir")
        if dd in ("c2s", "s2c") and fired:
            closer, reader = (pair.c, pair.s) if dd == "c2s" else \
                (pair.s, pair.c)
            closer.start(("close",), lambda: closer.conn.closeAsync())
            sim.run()
            o_r = reader.start(("read",),
                               lambda: reader.conn.readAsync(None, 1))
            sim.run()
            probes["close_after_attack"] = 1
            from tlslite.errors import TLSLocalAlert as _TLA
            own_failed_alert = awf and isinstance(o_r.exc, OSError) and \
                any(t_.fired for t_ in pair.awf)
            if o_r.kind == "exc" and not isinstance(o_r.exc, _TLA) and \
                    not own_failed_alert:
                # (a fatal alert raised by the reader itself is a detection:
                # tampered post-handshake records are only seen now)
                v("attack_surfaces_after_handshake",
                  "%s|%s|%s" % (kind, type(o_r.exc).__name__,
                                getattr(o_r.exc, "description", "")),
                  "both completed; then the peer's orderly close was read "
                  "as %r" % (o_r.exc,))
        # every byte of a plaintext handshake message is covered by the
        # transcript both Finished values are computed over: the two ends
        # cannot both complete on transcripts that differ in one
        if kind == "bitflip" and fired and desc.get("pos", 0) >= 5 and \
                desc["idx"] < len(lay[desc["dir"]]) and \
                lay[desc["dir"]][desc["idx"]][0] == 22 and \
                desc["pos"] - 5 < len(lay[desc["dir"]][desc["idx"]][2]):
            body_ = lay[desc["dir"]][desc["idx"]][2]
            v("transcripts_differ", "bitflip|%s|hs%d|%s" % (
                desc["dir"], body_[0], "tls13" if bver == (3, 4)
                else "tls<=1.2"),
              "both completed although byte %d of the %s handshake record "
              "#%d (first message type %d) was changed in flight" %
              (desc["pos"] - 5, desc["dir"], desc["idx"], body_[0]))
        if fired and not viol:
            probes["both_complete_same"] = 1
    # ---- the attacked connection must not leave anything behind in the
    # objects an application keeps across connections: the next, untouched
    # connection with the same settings objects negotiates like the baseline
    if poison and m.fired:
        r2 = execute(seed + 5, sc, kernel.Chooser(streams={}), None,
                     tag="2", shared=shared)
        probes["poison_checked"] = 1
        if r2[3].kind == "ok" and r2[4].kind == "ok":
            v2 = views.view(r2[1].c.conn)
            for f in ("version", "suite", "group", "ems", "etm"):
                if v2.get(f) != base_c.get(f):
                    v("poisoned_settings", "%s|%s" % (kind, f),
                      "after an attacked connection a later, untouched "
                      "connection using the same HandshakeSettings objects "
                      "negotiated %s=%r; with fresh objects it is %r" %
                      (f, v2.get(f), base_c.get(f)))
        else:
            v("poisoned_settings", "%s|failed" % kind,
              "after an attacked connection a later, untouched connection "
              "with the same HandshakeSettings objects failed: %r %r" %
              (r2[3].exc, r2[4].exc))
    # ---- sentinel sub-oracle
    obs = observe.observe(pair, tc, ts)
    smax = tuple(sc["sset"]["maxVersion"])
    cmax = tuple(sc["cset"]["maxVersion"])
    if "sh" in obs and not obs.get("hrr"):
        # what the server put on the wire (before any s2c tampering)
        shv = tuple(obs["sh"]["version"])
        rnd = obs["sh"]["random"]
        if shv == smax and rnd[-8:] in (SENT12, SENT11):
            # the server negotiated its own maximum: there is no downgrade
            # to signal, and a TLS 1.3 capable peer must abort on this
            v("sentinel_spurious", "%s|%s" % (kind, shv),
              "server negotiated its maximum version %s but wrote the "
              "downgrade sentinel into ServerHello.random" % (shv,))
        if (smax == (3, 4) and shv <= (3, 3)) or \
                (smax == (3, 3) and shv < (3, 3)):
            want = SENT12 if shv == (3, 3) else SENT11
            if rnd[-8:] != want:
                v("sentinel_missing", "%s|%s|smax%d" % (kind, shv, smax[1]),
                  "server (maxVersion %s) negotiated %s without the "
                  "downgrade sentinel in ServerHello.random" % (smax, shv))
            else:
                probes["sentinel_seen"] = 1
                if smax == (3, 3):
                    probes["sentinel_tls12_server"] = 1
                if cmax >= (3, 3) and cmax > shv and kind in (
                        "strip13", "lower_version", "strip_ext") and \
                        (cmax == (3, 4) or shv < (3, 3)):
                    # the client must abort right after ServerHello
                    after = [r for r in tc.records[1:]
                             if r[0] in (22, 20, 23)]
                    if oc.kind == "ok" or after:
                        v("sentinel_ignored", kind,
                          "TLS 1.3 capable client continued (%d records, "
                          "handshake %s) after a ServerHello carrying the "
                          "downgrade sentinel" % (len(after), oc.kind))
                    else:
                        probes["client_aborted_on_sentinel"] = 1
    return _res(job, ch, sim, sc, viol, probes, bool(fired),
                repr((oc.sig(), os_.sig(), desc)), desc)


def run_fallback(job, ch, seed, sc, v, viol, probes, ctx):
    """Attacker kills attempt 1; the client retries with a lower maxVersion
    and FALLBACK_SCSV; a server that supports more must refuse."""
    from tlslite.errors import TLSLocalAlert, TLSRemoteAlert
    probes["fallback"] = 1
    smax = tuple(sc["sset"]["maxVersion"])
    lower = [vv for vv in [(3, 1), (3, 2), (3, 3)] if vv < smax and
             vv >= tuple(sc["sset"]["minVersion"])]
    if not lower:
        return _res(job, ch, None, sc, viol, probes, False, "nofallback",
                    None)
    fv = lower[ch.draw(len(lower), "a.fver")]
    sc2 = json.loads(json.dumps(sc))
    sc2["cset"]["maxVersion"] = list(fv)
    if tuple(sc2["cset"]["minVersion"]) > fv:
        sc2["cset"]["minVersion"] = list(fv)
    sc2["cset"]["sendFallbackSCSV"] = True
    sc2["cset"].pop("keyShares", None)
    sc2["cset"].pop("pskConfigs", None)
    if sc2["flavour"] == "psk":
        sc2["flavour"] = "cert"
    sc2.pop("resume", None)
    # the retry may come with a session cached from an earlier connection at
    # the lower version (browsers do exactly that)
    session = None
    cache = None
    with_session = ch.draw(2, "a.fsess") == 1
    if with_session:
        from tlslite.api import SessionCache
        cache = SessionCache()
        sc1 = json.loads(json.dumps(sc2))
        sc1["cset"]["sendFallbackSCSV"] = False
        sc1["sset"]["maxVersion"] = list(fv)
        if tuple(sc1["sset"]["minVersion"]) > fv:
            sc1["sset"]["minVersion"] = list(fv)
        simp, pairp, mp, ocp, osp, stp, _, _ = execute(
            seed + 1, sc1, kernel.Chooser(streams={}), None, cache=cache,
            tag="0")
        if ocp.kind == "ok" and osp.kind == "ok":
            session = pairp.c.conn.session
            probes["fallback_with_session"] = 1
    ctx[0] = "[attack=fallback to %s with_session=%s scenario=%s]" % (
        fv, session is not None, json.dumps(sc2, sort_keys=True))
    sim, pair, m, oc, os_, st, tc, ts = execute(seed, sc2, ch, None,
                                                session=session, cache=cache)
    if os_.kind == "ok" or oc.kind == "ok":
        v("fallback_accepted", "%s|%s" % (fv, "session" if session
                                          is not None else "nosession"),
          "fallback handshake with FALLBACK_SCSV completed (client %s, "
          "server %s) although the server supports %s" %
          (oc.kind, os_.kind, smax))
    else:
        e = os_.exc
        if not (isinstance(e, TLSLocalAlert) and e.description == 86):
            v("fallback_wrong_answer", type(e).__name__ + "|" +
              str(getattr(e, "description", "")),
              "server answered the fallback attempt with %r instead of "
              "inappropriate_fallback" % (e,))
        else:
            probes["fallback_refused"] = 1
    return _res(job, ch, sim, sc2, viol, probes, True, "fallback%s" % (fv,),
                {"kind": "fallback", "to": list(fv)})


def _res(job, ch, sim, sc, viol, probes, nontrivial, tag, desc):
    key = hashlib.sha256(json.dumps([sc, tag], sort_keys=True,
                                    default=str).encode()).hexdigest()
    h = hashlib.sha256()
    h.update(tag.encode())
    h.update(json.dumps([x["sig"] for x in viol]).encode())
    h.update(ch.digest().encode())
    steps = 0
    stats = {}
    if sim is not None:
        for l in sim.links:
            h.update(bytes(l.c2s.wire_log))
            h.update(bytes(l.s2c.wire_log))
        steps = sim.steps
        stats = dict(sim.stats)
    return {"violations": viol, "nontrivial": nontrivial, "key": key,
            "digest": h.hexdigest(), "faults": stats,
            "probes": probes, "steps": steps, "order": "",
            "states": ["%s/%s" % ((desc or {}).get("kind"),
                                  sc["sset"]["maxVersion"])],
            "streams": ch.streams(), "inconclusive": False,
            "sample": {"scenario": sc, "attack": desc}}
