"""C16 - post-handshake control traffic never disturbs the data stream or key
synchronisation."""

import hashlib
import json

from sim import kernel
kernel.boot()
from sim import nodes, scen, creds, taps, script as sim_script  # noqa: E402
from model import prf as mprf                                   # noqa: E402

ID = "C16"
LEVEL = "exploration"
RULE = ("job = seed -> TLS 1.3 (all five suites, +- client certificate for "
        "post-handshake auth, +- heartbeat) or TLS <= 1.2 (heartbeat) "
        "handshake, then <= 6 rounds; in a round each endpoint (in drawn "
        "order, concurrently stepped) issues 0-3 control operations out of "
        "{key_update(requested|not), request_client_auth (server), "
        "heartbeat(payload, padding)} followed by a write, then reads what "
        "the peer wrote; delivery order/chunking drawn (so KeyUpdates of both "
        "sides cross, arrive between data fragments, PHA crosses data).  "
        "Optional final byzantine control message (heartbeat request when "
        "not allowed, heartbeat with short padding, CCS after completion, "
        "unsolicited Certificate / Finished, KeyUpdate not record aligned).  "
        "Oracle: FIFO byte model; at quiescence both ends hold equal traffic "
        "secrets that equal HKDF 'traffic upd' applied the counted number of "
        "times (stdlib hmac); every heartbeat response seen by the callback "
        "echoes the request payload in order; PHA records the client's chain "
        "on the server; illegal control => fatal alert from the receiver.  "
        "distinct = digest(scenario, rounds, choices); non-trivial = >= 1 "
        "control operation was processed by the peer"
        ' The control traffic may run on a resumed connection (ID / ticket / PSK) and after a HelloRetryRequest handshake; step invariant: the server session names a new client chain only after the post-handshake Finished has been accepted (small server record limits spread the flight over several records).'
        ' Heartbeats sized on / next to the record boundary; post-handshake auth with a client that declines (empty Certificate), with a request that does not offer certificate compression, and replay of an already answered request.'
        ' Generator protocol oracle: a read that processes control messages (post-handshake auth, KeyUpdate, tickets) yields 0/1 and then exactly one result, the data.  Illegal control also: KeyUpdate with request_update outside {0,1} sent through the API (keys in step).'
        ' Illegal control also: a NewSessionTicket sent by the client.'
        ' Family ku_race: a KeyUpdate whose write is parked on a stalled transport while the reader of the same connection processes one or two KeyUpdates of the peer; afterwards data flows both ways, both rekey once more, secrets agree.'
        " Family pha_race: the server application requests post-handshake authentication from a second lane while a read of the same connection is already parked; that read must accept the client's answer.")
LEVEL_TEXT = ("Seeded exploration of bounded control/data histories with "
              "random interleaving and delivery; the key-schedule oracle is "
              "an independent HKDF written on stdlib hmac.")
LEVEL_NOTE = ("Trusted: simulator, model/prf.py.  Control messages are only "
              "processed while the receiver reads, so every round ends with "
              "reads; NewSessionTicket delivery is part of every TLS 1.3 run "
              "(ticket_count drawn 0-3).")
BUDGET = {"quick": 300, "thorough": 1200}
CHUNK = 4
PROBES = ["key_update", "key_update_requested", "simultaneous_keyupdate",
          "pha", "heartbeat", "heartbeat_short_padding", "tls13", "legacy",
          "illegal_heartbeat", "illegal_ccs", "illegal_certificate",
          "illegal_finished", "ku_not_aligned", "nst", "secrets_checked",
          "pha_order_checked", "resumed", "hrr",
          "heartbeat_record_boundary", "pha_declined", "pha_replay",
          "ku_bad_value", "nst_from_client", "ku_race", "pha_race"]
COMPONENTS_REAL = ["tlslite post-handshake paths: KeyUpdate, PHA, "
                   "heartbeat, NewSessionTicket processing in readAsync"]
COMPONENTS_STUB = ["socket", "os.urandom", "clock"]
ASSUMPTIONS = ["honest endpoints except for the optional final message"]

TLS13 = [0x1301, 0x1302, 0x1303, 0x1304, 0x1305]


def plan(tier, base_seed):
    n = {"quick": 900, "thorough": 200000}[tier]
    jobs = [{"seed": base_seed * 1000003 + i} for i in range(n)]
    # a KeyUpdate whose write is parked on a stalled transport while the
    # reader of the same connection processes the peer's KeyUpdate(s)
    race = []
    for sid in (0x1301, 0x1302, 0x1303):
        for actor in "cs":
            for stall in (0, 3, 15):
                for npeer in (1, 2):
                    race.append({"seed": base_seed * 1000003 + 500000 +
                                 len(race), "fam": "ku_race",
                                 "race": [sid, actor, stall, npeer]})
    # post-handshake authentication requested (writer lane) while a read of
    # the same server connection is already parked
    for sid in (0x1301, 0x1303):
        for ck in ("rsa", "ecdsa"):
            race.append({"seed": base_seed * 1000003 + 600000 + len(race),
                         "fam": "pha_race", "race": [sid, ck]})
    jobs = jobs[:3] + race + jobs[3:]
    for j in jobs[:3]:
        j["keep"] = True
    return jobs


def run_ku_race(job):
    """Writer lane: send_keyupdate_request() parks on would-block.  Reader
    lane: processes `npeer` KeyUpdates (not requesting an answer, so the
    reader itself never writes) and data of the peer.  Then the parked
    KeyUpdate completes, both sides exchange data, the peer rekeys once
    more and data flows again: secrets in step, nothing lost."""
    from sim.loop import Lane
    seed = job["seed"]
    sid, actor, stall, npeer = job["race"]
    peer = "s" if actor == "c" else "c"
    sc = scen.suite_scenario(sid, (3, 4))
    ch = kernel.Chooser(streams={})
    sim = nodes.new_run(seed, chooser=ch, max_steps=100000, sched="first")
    pair = nodes.Pair(sim, sc, policy="ideal")
    viol = []
    probes = {"ku_race": 1, "tls13": 1}
    ctx = "[ku_race=%s]" % json.dumps(job["race"])

    def v(rule, sig, msg):
        viol.append({"rule": rule, "sig": sig, "msg": msg + " " + ctx})
    oc, os_, st = pair.handshake()
    if not (oc.kind == "ok" and os_.kind == "ok"):
        raise RuntimeError("ku_race handshake failed: %r %r" % (oc.exc,
                                                                os_.exc))
    eps = {"c": pair.c, "s": pair.s}
    A, P = eps[actor], eps[peer]
    # drain tickets so that later reads see data only
    if actor == "c":
        P.start(("w",), lambda: P.conn.writeAsync(b"x"))
        sim.run()
        A.start(("r",), lambda: A.conn.readAsync(None, 1))
        sim.run()
    out_pipe = pair.link.c2s if actor == "c" else pair.link.s2c
    A.sock.stall_after = len(out_pipe.sent_log) + stall
    W = Lane(A)
    ow = W.start(("ku",), lambda: A.conn.send_keyupdate_request(0))
    while W.op is not None and W.blocked != "w":
        W.step()
    parked = W.op is not None
    for i in range(npeer):
        P.start(("ku",), lambda: P.conn.send_keyupdate_request(0))
        sim.run(until=lambda: P.op is None)
        P.start(("w",), lambda: P.conn.writeAsync(b"p%d" % i))
        sim.run(until=lambda: P.op is None)
        r = A.start(("r",), lambda: A.conn.readAsync(None, 2))
        while A.op is not None:
            A.step()
            sim._deliver()
        if r.kind != "ok" or bytes(r.value) != b"p%d" % i:
            v("ku_race", "read_during_park|%s" % (r.kind),
              "data after the peer's KeyUpdate #%d: %r" % (
                  i, r.exc if r.kind == "exc" else r.value))
    A.sock.stall_after = None
    sim.run()
    if ow.kind != "ok":
        v("ku_race", "own_keyupdate|%s" % ow.kind, "own KeyUpdate: %r" %
          (ow.exc,))
    # both directions after everything settled, then one more peer rekey
    script = [[actor, "w", b"a1"], [peer, "r", 2], [peer, "ku"],
              [peer, "w", b"b1"], [actor, "r", 2], [actor, "ku"],
              [actor, "w", b"a2"], [peer, "r", 2]]

    def op_gen(ep, op):
        if op[1] == "w":
            return lambda: ep.conn.writeAsync(op[2])
        if op[1] == "r":
            return lambda: ep.conn.readAsync(None, op[2])
        return lambda: ep.conn.send_keyupdate_request(0)
    st = sim_script.run_script(sim, eps, script, op_gen)
    bad = [(w, o.desc, o.exc) for w in "cs" for o in eps[w].history[1:]
           if o.kind == "exc"]
    if bad or st != "idle":
        v("ku_race", "after|%s" % (type(bad[0][2]).__name__ if bad else st),
          "traffic after the interleaved KeyUpdates failed: %r status=%s" %
          (bad, st))
    s_a, s_p = A.conn.session, P.conn.session
    for f in ("cl_app_secret", "sr_app_secret"):
        if bytes(getattr(s_a, f)) != bytes(getattr(s_p, f)):
            v("ku_race", "secrets|" + f, "%s differs between the two ends "
              "after a KeyUpdate that was parked while the peer rekeyed" % f)
    key = hashlib.sha256(json.dumps(job["race"]).encode()).hexdigest()
    h = hashlib.sha256()
    h.update(bytes(pair.link.c2s.wire_log))
    h.update(bytes(pair.link.s2c.wire_log))
    h.update(json.dumps([x["sig"] for x in viol]).encode())
    return {"violations": viol, "nontrivial": parked, "key": key,
            "digest": h.hexdigest(), "faults": dict(sim.stats),
            "probes": probes, "steps": sim.steps, "order": "",
            "states": ["%s/ku_race" % sid], "streams": {},
            "inconclusive": False,
            "sample": {"scenario": sc, "race": job["race"]}}


def run_pha_race(job):
    from sim.loop import Lane
    seed = job["seed"]
    sid, ck = job["race"]
    sc = scen.suite_scenario(sid, (3, 4))
    sc["ckey"] = ck
    ch = kernel.Chooser(streams={})
    sim = nodes.new_run(seed, chooser=ch, max_steps=100000, sched="first")
    pair = nodes.Pair(sim, sc, policy="ideal")
    viol = []
    probes = {"pha_race": 1, "tls13": 1}
    ctx = "[pha_race=%s]" % json.dumps(job["race"])

    def v(rule, sig, msg):
        viol.append({"rule": rule, "sig": sig, "msg": msg + " " + ctx})
    oc, os_, st = pair.handshake()
    if not (oc.kind == "ok" and os_.kind == "ok"):
        raise RuntimeError("pha_race handshake failed: %r %r" % (oc.exc,
                                                                 os_.exc))
    C, S = pair.c, pair.s
    if not S.conn._pha_supported:
        return {"violations": [], "nontrivial": False, "key": "pha_na",
                "digest": "", "faults": {}, "probes": probes, "steps": 0,
                "order": "", "states": [], "streams": {},
                "inconclusive": False, "sample": {}}
    # the server application sits in a read ...
    rd = S.start(("read",), lambda: S.conn.readAsync(None, 1))
    while S.op is not None and S.blocked != "r":
        S.step()
    parked = S.op is not None
    # ... and asks for the client's certificate from another task
    W = Lane(S)
    ow = W.start(("pha",), lambda: S.conn.request_post_handshake_auth())
    while W.op is not None:
        W.step()
        sim._deliver()
    # the client meets the request in a read, answers it, then sends data
    c0 = C.start(("read0",), lambda: C.conn.readAsync(None, 0))
    sim.run(until=lambda: C.op is None)
    C.start(("write",), lambda: C.conn.writeAsync(b"d"))
    st = sim.run()
    want = creds.load("client", ck)[0]
    got = S.conn.session.clientCertChain
    if rd.kind != "ok" or bytes(rd.value) != b"d":
        v("pha", "parked_reader|%s" % (type(rd.exc).__name__ if rd.kind ==
                                       "exc" else rd.kind),
          "a read that was already waiting when the application requested "
          "post-handshake authentication did not accept the client's answer:"
          " %r" % (rd.exc if rd.kind == "exc" else rd.value,))
    elif got is None or got.x509List[0].bytes != want.x509List[0].bytes:
        v("pha", "parked_reader|chain", "client chain not recorded")
    key = hashlib.sha256(json.dumps(job["race"]).encode()).hexdigest()
    h = hashlib.sha256()
    h.update(bytes(pair.link.c2s.wire_log))
    h.update(bytes(pair.link.s2c.wire_log))
    h.update(json.dumps([x["sig"] for x in viol]).encode())
    return {"violations": viol, "nontrivial": parked, "key": key,
            "digest": h.hexdigest(), "faults": dict(sim.stats),
            "probes": probes, "steps": sim.steps, "order": "",
            "states": ["%s/pha_race" % sid], "streams": {},
            "inconclusive": False,
            "sample": {"scenario": sc, "race": job["race"]}}


def run(job, streams=None):
    from tlslite.errors import TLSLocalAlert
    from tlslite import messages as M
    if job.get("fam") == "ku_race":
        return run_ku_race(job)
    if job.get("fam") == "pha_race":
        return run_pha_race(job)
    seed = job["seed"]
    ch = kernel.Chooser(seed=seed) if streams is None else \
        kernel.Chooser(streams=streams)
    tls13 = ch.draw(4, "cfg.legacy") != 1
    viol = []
    probes = {"tls13" if tls13 else "legacy": 1}
    if tls13:
        sid = TLS13[ch.draw(5, "cfg.suite")]
        sc = scen.suite_scenario(sid, (3, 4))
        sc["sset"]["ticket_count"] = ch.draw(4, "cfg.tickets")
        if ch.draw(3, "cfg.tkeys") != 2:
            sc["sset"]["ticketKeys"] = ["44" * 32]
        if ch.draw(4, "cfg.hrr") == 1:
            # handshake goes through a HelloRetryRequest
            sc["cset"]["keyShares"] = []
            probes["hrr"] = 1
        if ch.draw(2, "cfg.cauth"):
            sc["ckey"] = ["rsa", "ecdsa", "ed25519", "empty"][
                ch.draw(4, "cfg.ckey")]
            # a small receive limit on the server spreads the client's
            # post-handshake flight over several records
            lim = [None, 64, 200, 600][ch.draw(4, "cfg.srvlimit")]
            if lim:
                sc["sset"]["record_size_limit"] = lim
    else:
        ver = [(3, 3), (3, 1), (3, 2)][ch.draw(3, "cfg.ver")]
        pool = scen.negotiable(ver)
        pool = [s for s in pool if scen.all_suites()[s].cipher != "3des"]
        sid = pool[ch.draw(len(pool), "cfg.suite")]
        sc = scen.suite_scenario(sid, ver)
    hb = ch.draw(3, "cfg.hb") != 2
    ctx = ["[scenario=%s]" % json.dumps(sc, sort_keys=True)]

    def v(rule, sig, msg):
        viol.append({"rule": rule, "sig": sig, "msg": msg + " " + ctx[0]})

    sim = nodes.new_run(seed, chooser=ch, max_steps=300000)
    pair = nodes.Pair(sim, sc, policy="random",
                      wb_budget=kernel.Budget(40),
                      delay_budget=kernel.Budget(60))
    hb_seen = {"c": [], "s": []}
    if hb:
        pair.cset.heartbeat_response_callback = \
            lambda m: hb_seen["c"].append(bytes(m.payload))
        pair.sset.heartbeat_response_callback = \
            lambda m: hb_seen["s"].append(bytes(m.payload))
    else:
        pair.cset.use_heartbeat_extension = ch.draw(2, "cfg.hbext") == 1
    # the control traffic may also run on a resumed connection (session ID,
    # RFC 5077 ticket, TLS 1.3 PSK): what was negotiated for heartbeat / PHA
    # must hold there too
    res = ch.draw(4, "cfg.resume")
    cache = None
    if res in (1, 2):
        from tlslite.api import SessionCache
        if res == 1 and not tls13:
            with kernel.Node("cache", seed):
                cache = SessionCache()
        else:
            sc["sset"]["ticketKeys"] = ["44" * 32]
            if tls13 and not sc["sset"].get("ticket_count"):
                sc["sset"]["ticket_count"] = 1
            pair.sset.ticketKeys = [bytearray(b"\x44" * 32)]
            pair.sset.ticket_count = sc["sset"].get("ticket_count", 2)
        oc, os_, st = pair.handshake(cache=cache)
        if oc.kind == "ok" and os_.kind == "ok":
            sim_script.run_script(
                sim, {"c": pair.c, "s": pair.s},
                [["s", "w"], ["c", "r"], ["c", "close"], ["s", "r0"]],
                lambda ep, op: {
                    "w": lambda: ep.conn.writeAsync(b"first"),
                    "r": lambda: ep.conn.readAsync(None, 5),
                    "r0": lambda: ep.conn.readAsync(None, 1),
                    "close": lambda: ep.conn.closeAsync()}[op[1]])
            session = pair.c.conn.session
            sim.links.remove(pair.link)
            sim.eps.remove(pair.c)
            sim.eps.remove(pair.s)
            pair = nodes.Pair(sim, sc, policy="random",
                              wb_budget=kernel.Budget(40),
                              delay_budget=kernel.Budget(60),
                              cnode=kernel.Node("c2", seed),
                              snode=kernel.Node("s2", seed))
            if hb:
                pair.cset.heartbeat_response_callback = \
                    lambda m: hb_seen["c"].append(bytes(m.payload))
                pair.sset.heartbeat_response_callback = \
                    lambda m: hb_seen["s"].append(bytes(m.payload))
            else:
                pair.cset.use_heartbeat_extension = \
                    ch.draw(2, "cfg.hbext2") == 1
            oc, os_, st = pair.handshake(session=session, cache=cache)
            if oc.kind == "ok" and pair.c.conn.resumed:
                probes["resumed"] = 1
            elif not (oc.kind == "ok" and os_.kind == "ok"):
                # whether an offered session may break a handshake is C13's
                # question
                probes["resume_handshake_failed"] = 1
                return _res(job, ch, sim, sc, viol, probes, False, [], pair)
    else:
        oc, os_, st = pair.handshake()
    if not (oc.kind == "ok" and os_.kind == "ok"):
        v("handshake", "failed", "handshake failed: %r %r" % (oc.exc,
                                                               os_.exc))
        return _res(job, ch, sim, sc, viol, probes, False, [], pair)
    eps = {"c": pair.c, "s": pair.s}
    conns = {"c": pair.c.conn, "s": pair.s.conn}
    suite = scen.all_suites()[sid]
    hname = suite.prf
    hlen = 48 if hname == "sha384" else 32
    secrets0 = None
    if tls13:
        s_ = conns["c"].session
        secrets0 = {"c": bytes(s_.cl_app_secret), "s": bytes(s_.sr_app_secret)}
        if bytes(conns["s"].session.cl_app_secret) != secrets0["c"] or \
                bytes(conns["s"].session.sr_app_secret) != secrets0["s"]:
            v("secrets", "initial", "application secrets differ right after "
              "the handshake")
    # invariant, evaluated after every simulation step: the server's session
    # names a (new) client chain only once the server has accepted the
    # Finished that ends the corresponding post-handshake flight
    from sim import observe
    srv_tap = taps.RecvTap(conns["s"])
    pha_state = {"chain": conns["s"].session.clientCertChain, "changes": 0,
                 "flagged": False}

    def pha_invariant(_sim):
        cur = conns["s"].session.clientCertChain
        if cur is pha_state["chain"]:
            return
        pha_state["chain"] = cur
        pha_state["changes"] += 1
        fins = len([m for m in observe.split_hs(
            [b for t, b in srv_tap.accepted if t == 22]) if m[0] == 20])
        if fins < pha_state["changes"] and not pha_state["flagged"]:
            pha_state["flagged"] = True
            v("pha", "chain_before_finished",
              "server session names a client chain after %d change(s) while "
              "only %d post-handshake Finished message(s) had been accepted"
              % (pha_state["changes"], fins))
        else:
            probes["pha_order_checked"] = 1
    sim.invariants.append(pha_invariant)
    seen_cr = []
    if tls13:
        orig_pha = conns["c"]._handle_pha

        def spy_pha(cert_request):
            seen_cr.append(cert_request)
            return orig_pha(cert_request)
        conns["c"]._handle_pha = spy_pha
    can_hb = {w: conns[w].heartbeat_supported and conns[w].heartbeat_can_send
              for w in "cs"}
    pha_ok = tls13 and sc.get("ckey") and conns["s"]._pha_supported

    # ---- build rounds
    rounds = []
    ku_sent = {"c": 0, "s": 0}           # explicit KeyUpdates sent by X
    ku_req = {"c": 0, "s": 0}            # ... of which 'update_requested'
    hb_sent = {"c": [], "s": []}
    wrote = {"c": 0, "s": 0}
    pha_count = 0
    big_hb = [0]
    nrounds = 1 + ch.draw(6, "r.n")
    script_log = []
    for r in range(nrounds):
        order = ["cs", "sc"][ch.draw(2, "r.order")]
        ops = []
        rd = {}
        both_ku = 0
        for w in order:
            nctl = ch.draw(4, "r.nctl")
            ku_this = False
            for _ in range(nctl):
                k = ch.draw(4, "r.ctl")
                if k in (0, 1) and tls13:
                    req = k == 1
                    ops.append([w, "ku", req])
                    ku_sent[w] += 1
                    ku_this = True
                    if req:
                        ku_req[w] += 1
                        probes["key_update_requested"] = 1
                    probes["key_update"] = 1
                elif k == 2 and can_hb[w]:
                    pad = [16, 17, 64, 15, 0][ch.draw(5, "r.hbp")]
                    hbl = ch.draw(40, "r.hbl")
                    bx = ch.draw(8, "r.hbexact")
                    if bx in (1, 2) and big_hb[0] < 2:
                        # message length exactly / one below the sender's
                        # record size (type + length + payload + padding);
                        # longer ones are not heartbeat messages (RFC 6520)
                        hbl = max(0, min(conns[w].recordSize, conns[
                            "s" if w == "c" else "c"].recordSize) - 3 -
                            max(pad, 16) + (bx - 2))
                        big_hb[0] += 1
                        probes["heartbeat_record_boundary"] = 1
                    # RFC 6520 s4: a heartbeat message fits into one record
                    # (what happens to a longer one is not specified here)
                    # ... and so must the echo, in the other direction
                    other = "s" if w == "c" else "c"
                    room = min(conns[w].recordSize,
                               conns[other].recordSize) - 3
                    if room < 16:
                        continue
                    if hbl + pad > room:
                        if pad > 16:
                            pad = 16
                        hbl = max(0, min(hbl, room - pad))
                    pl = scen.payload(9, len(hb_sent[w]) * 40, hbl)
                    ops.append([w, "hb", pl.hex(), pad])
                    if pad >= 16:
                        hb_sent[w].append(pl)
                    else:
                        probes["heartbeat_short_padding"] = 1
                    probes["heartbeat"] = 1
                elif k == 3 and w == "s" and pha_ok and pha_count < 2:
                    # (variant 1: the request does not offer certificate
                    # compression, so the answer is a plain Certificate)
                    ops.append([w, "pha", ch.draw(3, "r.phavar") == 1])
                    pha_count += 1
                    probes["pha"] = 1
            both_ku += ku_this
            n = 1 + scen.draw_len(ch, "r.len", cap=3000)
            ops.append([w, "write", wrote[w], n])
            wrote[w] += n
            rd[("s" if w == "c" else "c")] = n
        if both_ku == 2:
            probes["simultaneous_keyupdate"] = 1
        for w in order:
            ops.append([w, "read", None, rd[w]])
        rounds.append(ops)
        script_log.append(ops)
    # two flush rounds so that every response (KeyUpdate reply, heartbeat
    # response, PHA flight) has been processed by its addressee
    for r in range(2):
        ops = []
        for w in "cs":
            ops.append([w, "write", wrote[w], 1])
            wrote[w] += 1
        for w in "cs":
            ops.append([w, "read", None, 1])
        rounds.append(ops)

    def op_gen(ep, op):
        conn = ep.conn
        if op[1] == "write":
            data = scen.payload(1 if ep.name == "c" else 2, op[2], op[3])
            return lambda: conn.writeAsync(data)
        if op[1] == "read":
            return lambda: conn.readAsync(op[2], op[3])
        if op[1] == "ku":
            return lambda: conn.send_keyupdate_request(1 if op[2] else 0)
        if op[1] == "ku_val":
            return lambda: conn.send_keyupdate_request(op[2])
        if op[1] == "hb":
            return lambda: conn.write_heartbeat(
                bytearray(bytes.fromhex(op[2])), op[3])
        if op[1] == "pha":
            if len(op) > 2 and op[2]:
                from tlslite.api import HandshakeSettings
                hs_ = HandshakeSettings()
                hs_.certificate_compression_receive = []
                return lambda: conn.request_post_handshake_auth(hs_)
            return lambda: conn.request_post_handshake_auth()
        if op[1] == "pha_again":
            return lambda: orig_pha(seen_cr[-1])
        if op[1] == "raw":
            return lambda: conn._sendMsg(op[2])
        if op[1] == "rawrec":
            return lambda: conn._recordLayer.sendRecord(op[2])
        raise ValueError(op)

    status = "idle"
    for ops in rounds:
        status = sim_script.run_script(sim, eps, ops, op_gen)
        if status != "idle":
            break
    processed = False
    # ---- oracles
    bad_ops = [(w, o.desc, o.exc) for w in "cs" for o in eps[w].history[1:]
               if o.kind == "exc"]
    for w, d, e in bad_ops:
        from sim.trace import where
        v("exception", "%s|%s|%s" % (d[0], type(e).__name__, where(e)),
          "%s op %r raised %r" % (w, d, e))
    # generator protocol: control messages handled inside a read must not
    # surface through it - a call yields 0 / 1 while blocked and at most one
    # result, which for a read is the data (a caller that follows the
    # documented protocol stops at the first result)
    for w in "cs":
        for o in eps[w].history[1:]:
            if o.nvalues > 1 or (o.kind == "ok" and o.desc[0] == "read" and
                                 o.nvalues and not isinstance(
                                     o.value, (bytes, bytearray))):
                v("generator_protocol", "%s|%d_results" % (o.desc[0],
                                                           o.nvalues),
                  "%s op %r yielded %d result values (last: %s)" %
                  (w, o.desc, o.nvalues, type(o.value).__name__))
    if status != "idle" and not bad_ops:
        v("liveness", status, "history did not finish: %s pending=%r" %
          (status, [(w, eps[w].cur.desc) for w in "cs" if eps[w].cur]))
    if not bad_ops and status == "idle":
        # FIFO
        for w in "cs":
            peer = "s" if w == "c" else "c"
            got = b"".join(bytes(o.value) for o in eps[w].history[1:]
                           if o.desc[0] == "read" and o.kind == "ok")
            want = scen.payload(1 if peer == "c" else 2, 0, wrote[peer])
            if got != want:
                k = 0
                while k < min(len(got), len(want)) and got[k] == want[k]:
                    k += 1
                v("fifo", w, "%s received %d bytes, peer wrote %d; first "
                  "difference at %d" % (w, len(got), len(want), k))
        # traffic secrets
        if tls13:
            s_c, s_s = conns["c"].session, conns["s"].session
            n_c = ku_sent["c"] + ku_req["s"]      # updates of client-write
            n_s = ku_sent["s"] + ku_req["c"]
            exp_c, exp_s = secrets0["c"], secrets0["s"]
            for _ in range(n_c):
                exp_c = mprf.hkdf_expand_label(hname, exp_c, b"traffic upd",
                                               b"", hlen)
            for _ in range(n_s):
                exp_s = mprf.hkdf_expand_label(hname, exp_s, b"traffic upd",
                                               b"", hlen)
            for side, sess in (("client", s_c), ("server", s_s)):
                if bytes(sess.cl_app_secret) != exp_c:
                    v("key_sync", "cl_app_secret|" + side,
                      "%s holds a client traffic secret that is not the "
                      "initial one updated %d times" % (side, n_c))
                if bytes(sess.sr_app_secret) != exp_s:
                    v("key_sync", "sr_app_secret|" + side,
                      "%s holds a server traffic secret that is not the "
                      "initial one updated %d times" % (side, n_s))
            probes["secrets_checked"] = 1
            if n_c or n_s:
                processed = True
        # heartbeat echoes
        for w in "cs":
            if not hb:
                # no response callbacks installed: nothing to compare (a
                # resumed server may send requests without having one)
                continue
            if hb_seen[w] != hb_sent[w]:
                v("heartbeat_echo", w, "%s sent heartbeat payloads %r, "
                  "responses carried %r" % (
                      w, [p.hex() for p in hb_sent[w]],
                      [p.hex() for p in hb_seen[w]]))
            elif hb_sent[w]:
                processed = True
        # PHA
        if pha_count and sc["ckey"] == "empty":
            got = conns["s"].session.clientCertChain
            if got is not None and got.x509List:
                v("pha", "chain_from_nowhere", "the client declined (empty "
                  "Certificate) but the server session names a chain")
            else:
                processed = True
                probes["pha_declined"] = 1
        elif pha_count:
            want = creds.load("client", sc["ckey"])[0]
            got = conns["s"].session.clientCertChain
            if got is None or got.x509List[0].bytes != \
                    want.x509List[0].bytes:
                v("pha", "chain", "post-handshake authentication did not "
                  "record the client's chain on the server")
            else:
                processed = True
        if tls13 and conns["c"].tickets:
            probes["nst"] = 1
        # ---- optional illegal control message
        ill = ch.draw(12, "i.kind")
        if ill in (6, 7) and pha_count and seen_cr and not viol:
            # the client answers an already answered CertificateRequest a
            # second time (after a decline: now with a real certificate)
            if sc["ckey"] == "empty":
                conns["c"]._client_keypair = creds.load("client", "rsa")
            probes["pha_replay"] = 1
            ops = [["c", "pha_again"], ["c", "write", wrote["c"], 5],
                   ["s", "read", None, 5]]
            sim_script.run_script(sim, eps, ops, op_gen)
            rd = [o for o in eps["s"].history if o.desc[0] == "read"]
            last = rd[-1]
            ctx[0] = "[illegal=pha_replay scenario=%s]" % json.dumps(
                sc, sort_keys=True)
            if last.kind == "ok":
                v("illegal_control_tolerated", "pha_replay|%s" % (
                    "after_decline" if sc["ckey"] == "empty" else
                    "after_auth"),
                  "the server accepted a second Certificate flight for a "
                  "CertificateRequest that had already been answered")
            elif not (isinstance(last.exc, TLSLocalAlert) and
                      last.exc.level == 2):
                v("illegal_control_wrong_error", "pha_replay|%s" %
                  type(last.exc).__name__, "second answer to a "
                  "CertificateRequest surfaced as %r" % (last.exc,))
            processed = True
        if ill in (1, 2, 3, 4, 5, 8, 9, 10, 11):
            w = "cs"[ch.draw(2, "i.who")]
            peer = "s" if w == "c" else "c"
            name = None
            if ill == 1 and not conns[peer].heartbeat_can_receive \
                    and conns[peer].heartbeat_supported:
                msg = M.Heartbeat().create(1, bytearray(b"x"), 16)
                ops = [[w, "raw", msg]]
                name = "illegal_heartbeat"
            elif ill == 2 and tls13:
                ops = [[w, "raw", M.ChangeCipherSpec().create()]]
                name = "illegal_ccs"
            elif ill == 3 and tls13 and w == "c":
                from tlslite.constants import CertificateType
                from tlslite.x509certchain import X509CertChain
                c = M.Certificate(CertificateType.x509, (3, 4))
                c.create(X509CertChain([]), bytearray(b"ctx"))
                ops = [[w, "raw", c]]
                name = "illegal_certificate"
            elif ill == 4 and tls13:
                f = M.Finished((3, 4), hlen).create(bytearray(hlen))
                ops = [[w, "raw", f]]
                name = "illegal_finished"
            elif ill == 5 and tls13:
                ku = M.KeyUpdate().create(0).write()
                ops = [[w, "rawrec", M.Message(22, ku + bytearray(
                    [24, 0, 0]))]]
                name = "ku_not_aligned"
            elif ill in (10, 11) and tls13:
                # only servers issue tickets
                w, peer = "c", "s"
                ops = [[w, "raw", M.NewSessionTicket().create(
                    3600, 1, bytearray(b"n"), bytearray(b"ticket"), [])]]
                name = "nst_from_client"
            elif ill in (8, 9) and tls13:
                # request_update outside {0, 1} (RFC 8446 4.6.3:
                # illegal_parameter)
                val = [2, 255, 3, 128][ch.draw(4, "i.kuval")]
                # (sent through the API, which rotates the sender's keys:
                # a receiver that follows would stay in step)
                ops = [[w, "ku_val", val]]
                name = "ku_bad_value"
            if name:
                probes[name] = 1
                ops += [[w, "write", wrote[w], 5], [peer, "read", None, 5]]
                st2 = sim_script.run_script(sim, eps, ops, op_gen)
                rd = [o for o in eps[peer].history if o.desc[0] == "read"]
                last = rd[-1]
                ctx[0] = "[illegal=%s by %s scenario=%s]" % (
                    name, w, json.dumps(sc, sort_keys=True))
                if last.kind == "ok":
                    v("illegal_control_tolerated", name,
                      "receiver delivered data after a control message "
                      "that is not permitted (%s)" % name)
                elif last.kind == "exc" and not (
                        isinstance(last.exc, TLSLocalAlert) and
                        last.exc.level == 2):
                    v("illegal_control_wrong_error",
                      "%s|%s" % (name, type(last.exc).__name__),
                      "receiver answered %s with %r instead of a fatal "
                      "alert" % (name, last.exc))
                processed = True
    return _res(job, ch, sim, sc, viol, probes, processed, script_log, pair)


def _res(job, ch, sim, sc, viol, probes, nontrivial, log, pair):
    key = hashlib.sha256(json.dumps([sc, log, ch.streams()], sort_keys=True,
                                    default=str).encode()).hexdigest()
    h = hashlib.sha256()
    h.update(bytes(pair.link.c2s.wire_log))
    h.update(bytes(pair.link.s2c.wire_log))
    h.update(json.dumps([x["sig"] for x in viol]).encode())
    h.update(ch.digest().encode())
    return {"violations": viol, "nontrivial": nontrivial, "key": key,
            "digest": h.hexdigest(), "faults": dict(sim.stats),
            "probes": probes, "steps": sim.steps,
            "order": sim.order.hexdigest(),
            "states": ["%s/%d" % (sc.get("suite"), len(log))],
            "streams": ch.streams(), "inconclusive": False,
            "sample": {"scenario": sc, "rounds": log}}
