"""C10 (clauses decidable by simulation) - a faulty signature is never placed
on the wire; out-of-range / off-curve / small-order peer shares are refused;
honest exchanges agree."""

import hashlib
import json

from sim import kernel
kernel.boot()
from sim import nodes, scen, taps, byz, creds, views     # noqa: E402

ID = "C10"
LEVEL = "exploration"
RULE = ("job = seed -> family.  'fault': honest two-endpoint handshake of a "
        "flavour that signs (ServerKeyExchange RSA/PSS/ECDSA/EdDSA/DSA, "
        "SRP+cert, client CertificateVerify <=1.2, TLS 1.3 server/client "
        "CertificateVerify, post-handshake auth); a computation fault is "
        "injected at a drawn invocation of the signer's private-key "
        "primitive (instance wrapper on _rawPrivateKeyOp / _sign / "
        "_hashAndSign / sign): bit flip, zero / garbage output, valid "
        "signature over another message.  Oracle: the faulting endpoint's "
        "call raises and no signature-bearing message (ServerKeyExchange / "
        "CertificateVerify) is sent after the fault; nothing is attributed. "
        " 'share': the consistent byzantine peer sends a bad key share "
        "(FFDH 0, 1, p-1, p, p+1, oversize; ECDH off-curve, wrong length, "
        "wrong format byte, infinity; X25519/X448 zero and small-order "
        "points, wrong length) in ServerKeyExchange (anon), "
        "ClientKeyExchange, TLS 1.3 key_share of either side.  Oracle: the "
        "victim never completes.  'agree': honest handshakes over every "
        "FFDH/ECDH/X25519/X448 group end with equal secrets.  distinct = "
        "digest(family, scenario, fault); non-trivial = fault fired / bad "
        "share emitted / group negotiated"
        ' TLS 1.3 key shares also carry the honest point in compressed / hybrid / raw X9.62 encodings (must be refused).'
        ' Abort-point oracle: after an invalid share the victim must not answer with ServerHello / ClientKeyExchange / Finished.')
LEVEL_TEXT = ("Seeded fault injection at private-key operations and seeded "
              "search over invalid peer shares in live handshakes.  The "
              "pure clauses of C10 (sign/verify soundness and strictness "
              "for all messages, salts and malformed paddings; "
              "cross-verification for all inputs) are functions of their "
              "inputs only and are NOT decided by this family; OpenSSL "
              "cross-checks tlslite's signatures per handshake in C07.")
LEVEL_NOTE = ("Trusted: interposer, fault wrappers.  Signed "
              "ServerKeyExchange carrying a bad share is not built (the "
              "signature would already fail); anon suites and TLS 1.3 cover "
              "the client-side share checks.")
BUDGET = {"quick": 300, "thorough": 1200}
CHUNK = 8
PROBES = ["fault", "share", "agree", "fault_ske", "fault_cv13_server",
          "fault_cv_client", "fault_pha", "rsa", "ecdsa", "eddsa", "dsa",
          "share_ffdh", "share_ecdh", "share_x25519", "share_x448",
          "share_tls13_client", "share_tls13_server", "share_ske",
          "share_cke", "aborted_internal_error",
          "agree_ffdhe_tls13_volume"]
COMPONENTS_REAL = ["tlslite key classes, KeyExchange classes, verify-after-"
                   "sign paths, share validation"]
COMPONENTS_STUB = ["socket", "os.urandom", "clock", "private-key primitive "
                   "(fault wrapper)", "byzantine peer"]
ASSUMPTIONS = ["one fault per run"]

GROUPS = ["secp256r1", "secp384r1", "secp521r1", "x25519", "x448",
          "ffdhe2048", "ffdhe3072", "brainpoolP256r1"]
SMALL_X25519 = [
    "0000000000000000000000000000000000000000000000000000000000000000",
    "0100000000000000000000000000000000000000000000000000000000000000",
    "e0eb7a7c3b41b8ae1656e3faf19fc46ada098deb9c32b1fd866205165f49b800",
    "5f9c95bca3508c24b1d0b1559c83ef5b04445cc4581c8e86d8224eddd09f1157",
    "ecffffffffffffffffffffffffffffffffffffffffffffffffffffffffffff7f",
    "edffffffffffffffffffffffffffffffffffffffffffffffffffffffffffff7f",
]
SMALL_X448 = ["00" * 56, "01" + "00" * 55,
              "fe" + "ff" * 27 + "fe" + "ff" * 27,
              "ff" * 28 + "fe" + "ff" * 27]


def plan(tier, base_seed):
    n = {"quick": 1500, "thorough": 300000}[tier]
    fams = ["fault", "share", "share", "fault", "agree"]
    jobs = [{"seed": base_seed * 1000003 + i, "fam": fams[i % 5]}
            for i in range(n)]
    # TLS 1.3 FFDHE pads the shared secret to the prime length while TLS 1.2
    # strips leading zeros: the two code paths only differ when the top
    # octet of g^xy is zero (1 in 256), so this cell needs volume
    m = {"quick": 1100, "thorough": 40000}[tier]
    jobs += [{"seed": base_seed * 1000003 + 500000 + i, "fam": "agree",
              "force": ["ffdhe2048", True]} for i in range(m)]
    for j in jobs[:3]:
        j["keep"] = True
    return jobs


def install_fault(key, ch, state):
    """Wrap the private-key primitive(s) of `key`; state['n'] counts calls,
    the call with index state['at'] returns a wrong value."""
    kind = type(key).__name__
    mode = ch.draw(3, "f.mode")

    def corrupt(val, recompute):
        state["fired"] = True
        if isinstance(val, int):
            if mode == 0:
                return val ^ (1 << ch.draw(max(1, val.bit_length()), "f.bit"))
            if mode == 1:
                return 0 if val else 1
            return recompute()
        b = bytearray(val)
        if mode == 0 and b:
            b[ch.draw(len(b), "f.pos")] ^= 1 << ch.draw(8, "f.bit")
            return b
        if mode == 1:
            return bytearray(len(b))
        return recompute()

    def wrap(name, alt_arg):
        orig = getattr(key, name)

        def f(*a, **kw):
            r = orig(*a, **kw)
            i = state["n"]
            state["n"] += 1
            if i == state["at"] and not state.get("fired"):
                return corrupt(r, lambda: orig(*alt_arg(a), **kw))
            return r
        setattr(key, name, f)
        state.setdefault("restore", []).append((key, name))
    if "RSA" in kind:
        wrap("_rawPrivateKeyOp", lambda a: ((a[0] + 1) % key.n,) + a[1:])
        return "rsa"
    if "ECDSA" in kind:
        wrap("_sign", lambda a: (_flip_first(a[0]),) + a[1:])
        wrap("_hashAndSign", lambda a: (bytearray(a[0]) + b"x",) + a[1:])
        return "ecdsa"
    if "EdDSA" in kind:
        wrap("_hashAndSign", lambda a: (bytearray(a[0]) + b"x",) + a[1:])
        return "eddsa"
    if "DSA" in kind:
        wrap("sign", lambda a: (_flip_first(a[0]),) + a[1:])
        return "dsa"
    raise ValueError(kind)


def _flip_first(data):
    """DSA/ECDSA use only the leftmost bits of an over-long digest: alter
    the first byte so that the signed value really differs."""
    b = bytearray(data)
    if b:
        b[0] ^= 0x55
    return b


def uninstall(state):
    for key, name in state.get("restore", []):
        try:
            delattr(key, name)
        except AttributeError:
            pass


def run(job, streams=None):
    seed = job["seed"]
    fam = job["fam"]
    ch = kernel.Chooser(seed=seed) if streams is None else \
        kernel.Chooser(streams=streams)
    viol = []
    probes = {fam: 1}
    ctx = [""]

    def v(rule, sig, msg):
        viol.append({"rule": rule, "sig": fam + "|" + sig,
                     "msg": msg + " " + ctx[0]})
    if fam == "fault":
        return run_fault(job, ch, seed, v, viol, probes, ctx)
    if fam == "share":
        return run_share(job, ch, seed, v, viol, probes, ctx)
    return run_agree(job, ch, seed, v, viol, probes, ctx)


def run_fault(job, ch, seed, v, viol, probes, ctx):
    from tlslite.errors import TLSLocalAlert, TLSInternalError
    site = ["ske", "cv13_server", "cv_client", "pha"][ch.draw(4, "f.site")]
    vers12 = [(3, 3), (3, 1), (3, 2), (3, 0)]
    if site == "ske":
        ver = vers12[ch.draw(4, "f.ver")]
        k = ["rsa", "ecdsa", "dsa", "ed25519", "rsapss", "srp_cert"][
            ch.draw(6, "f.key")]
        if k in ("ed25519", "rsapss") and ver < (3, 3):
            ver = (3, 3)
        sc = {"version": list(ver), "flavour": "cert", "skey": k,
              "cset": {"minVersion": list(ver), "maxVersion": list(ver)},
              "sset": {"minVersion": list(ver), "maxVersion": list(ver)}}
        if k == "srp_cert":
            if ver == (3, 0):
                ver = (3, 1)
                sc["cset"].update(minVersion=[3, 1], maxVersion=[3, 1])
                sc["sset"].update(minVersion=[3, 1], maxVersion=[3, 1])
            sc.update(flavour="srp_cert", skey="rsa")
        else:
            sc["cset"]["keyExchangeNames"] = [
                {"rsa": ["dhe_rsa", "ecdhe_rsa"][ch.draw(2, "f.kx")],
                 "rsapss": "ecdhe_rsa", "ecdsa": "ecdhe_ecdsa",
                 "ed25519": "ecdhe_ecdsa", "dsa": "dhe_dsa"}[k]]
        signer = ("server", sc["skey"])
        who = "s"
    elif site == "cv13_server":
        k = ["rsa", "ecdsa", "ed25519", "ed448", "ecdsa384", "rsapss"][
            ch.draw(6, "f.key")]
        sc = {"version": [3, 4], "flavour": "cert", "skey": k,
              "cset": {"minVersion": [3, 4], "maxVersion": [3, 4]},
              "sset": {"minVersion": [3, 4], "maxVersion": [3, 4]}}
        signer = ("server", k)
        who = "s"
    else:
        if site == "cv_client":
            ver = [(3, 3), (3, 4), (3, 1), (3, 2), (3, 0)][ch.draw(5,
                                                                  "f.ver")]
        else:
            ver = (3, 4)
        ck = ["rsa", "ecdsa", "ed25519", "dsa"][ch.draw(4, "f.key")]
        if ck == "ed25519" and ver < (3, 3):
            ck = "rsa"
        if ck == "dsa" and ver == (3, 4):
            ck = "ecdsa"
        sc = {"version": list(ver), "flavour": "cert", "skey": "rsa",
              "ckey": ck, "req_cert": site != "pha",
              "cset": {"minVersion": list(ver), "maxVersion": list(ver)},
              "sset": {"minVersion": list(ver), "maxVersion": list(ver)}}
        signer = ("client", ck)
        who = "c"
    probes["fault_" + {"ske": "ske", "cv13_server": "cv13_server",
                       "cv_client": "cv_client", "pha": "pha"}[site]] = 1
    ctx[0] = "[site=%s scenario=%s]" % (site, json.dumps(sc, sort_keys=True))
    sim = nodes.new_run(seed, chooser=ch, max_steps=100000, sched="first")
    pair = nodes.Pair(sim, sc, policy="ideal")
    # the signer's key object: a fresh, uncached one
    chain, key = creds.fresh(*signer)
    state = {"n": 0, "at": 1 if ch.draw(5, "f.at") == 1 else 0,
             "fired": False}
    ktype = install_fault(key, ch, state)
    probes[ktype] = 1
    orig_load = creds.load

    def patched(r, n):
        if (r, n) == signer:
            return chain, key
        return orig_load(r, n)
    creds.load = patched
    tp = {"c": taps.SendTap(pair.c.conn), "s": taps.SendTap(pair.s.conn)}
    for t in tp.values():
        t.keep_plain = True
    fire_stamp = [None]
    try:
        oc, os_, st = pair.handshake()
        if site == "pha" and oc.kind == "ok" and os_.kind == "ok":
            from sim import script as sim_script

            def op_gen(ep, op):
                if op[1] == "pha":
                    return lambda: ep.conn.request_post_handshake_auth()
                return lambda: ep.conn.readAsync(None, 0)
            sim_script.run_script(sim, {"c": pair.c, "s": pair.s},
                                  [["s", "pha"], ["c", "read0"],
                                   ["s", "read0"]], op_gen)
    finally:
        creds.load = orig_load
        uninstall(state)
    fired = state["fired"]
    ep = pair.c if who == "c" else pair.s
    peer = pair.s if who == "c" else pair.c
    if fired:
        # which signature-bearing messages did the faulting side send?
        from sim import observe
        msgs = observe.split_hs([r[4] for r in tp[who].records
                                 if r[0] == 22])
        sigmsgs = [m for m in msgs if m[0] in (12, 15)]
        # a faulty signature must never be sent: every signature message on
        # the wire must verify - we detect it by the abort instead: after a
        # fault the signing call must fail, so count signature messages
        excs = [o for o in ep.history if o.kind == "exc"]
        if site in ("ske", "cv13_server", "cv_client"):
            ho = ep.history[0]
            if ho.kind == "ok":
                v("faulty_signature_used", "%s|%s|completed" % (site, ktype),
                  "signer completed its handshake although its private-key "
                  "operation was faulted")
            if sigmsgs:
                v("faulty_signature_on_wire", "%s|%s" % (site, ktype),
                  "a %s message was sent after the signer's private-key "
                  "operation returned a wrong value" %
                  {12: "ServerKeyExchange", 15: "CertificateVerify"}[
                      sigmsgs[0][0]])
            po = peer.history[0]
            if po.kind == "ok" and site != "cv_client":
                v("faulty_signature_accepted", "%s|%s" % (site, ktype),
                  "peer completed although the signer faulted")
            if ho.kind == "exc" and (
                    isinstance(ho.exc, TLSInternalError) or
                    (isinstance(ho.exc, TLSLocalAlert) and
                     ho.exc.description == 80)):
                probes["aborted_internal_error"] = 1
        else:
            cvs = [m for m in msgs if m[0] == 15]
            if cvs:
                v("faulty_signature_on_wire", "pha|%s" % ktype,
                  "post-handshake CertificateVerify sent after a faulted "
                  "private-key operation")
            if pair.s.conn.session.clientCertChain is not None:
                v("faulty_signature_accepted", "pha|%s" % ktype,
                  "server recorded the client chain after a faulted PHA "
                  "signature")
    return _res(job, ch, sim, sc, viol, probes, fired,
                repr((site, ktype, state["at"], fired)))


def bad_share_values(kind, ch, honest):
    """kind in ffdh|ecdh|x25519|x448 ; honest = honest share (int or bytes)"""
    if kind == "ffdh":
        p = honest["p"]
        vals = [0, 1, p - 1, p, p + 1, (1 << (p.bit_length() + 8)) + 5]
        if honest.get("fixed_len"):
            # TLS 1.3 shares have the length of the prime: an oversize
            # value cannot be written down
            vals = vals[:5]
        return vals[ch.draw(len(vals), "s.val")]
    if kind == "ecdh":
        b = bytearray(honest["bytes"])
        k = ch.draw(9 if honest.get("tls13") else 6, "s.val")
        n = (len(b) - 1) // 2
        if k == 6:
            # the honest point in X9.62 compressed form (TLS 1.3 knows the
            # uncompressed form only, RFC 8446 4.2.8.2)
            return bytearray([2 + (b[-1] & 1)]) + b[1:1 + n]
        if k == 7:
            return bytearray([6 + (b[-1] & 1)]) + b[1:]      # hybrid form
        if k == 8:
            return b[1:]                                     # raw x || y
        if k == 0 and b[0] in (2, 3):
            # compressed form: another x may well be on the curve, one that
            # is not smaller than the field prime never is
            b = bytearray([b[0]]) + bytearray(b"\xff" * (len(b) - 1))
        elif k == 0:
            b[-1] ^= 1                      # off the curve
        elif k == 1:
            b = b[:-1]                      # wrong length
        elif k == 2:
            b[0] = 5                        # unknown point format
        elif k == 3:
            b = bytearray([0])              # point at infinity
        elif k == 4:
            b = bytearray([4]) + bytearray(len(b) - 1)   # (0, 0)
        else:
            b = b + b"\x00"
        return b
    if kind == "x25519":
        vals = SMALL_X25519 + ["00" * 31, "00" * 33]
        return bytearray(bytes.fromhex(vals[ch.draw(len(vals), "s.val")]))
    if kind == "x448":
        vals = SMALL_X448 + ["00" * 55, "00" * 57]
        return bytearray(bytes.fromhex(vals[ch.draw(len(vals), "s.val")]))
    raise ValueError(kind)


def group_kind(g):
    if g.startswith("ffdhe"):
        return "ffdh"
    if g in ("x25519", "x448"):
        return g
    return "ecdh"


def run_share(job, ch, seed, v, viol, probes, ctx):
    where = ["ske", "cke", "tls13_client", "tls13_server"][ch.draw(4,
                                                                  "s.where")]
    g = GROUPS[ch.draw(len(GROUPS), "s.group")]
    if g == "brainpoolP256r1" and where.startswith("tls13"):
        g = "secp256r1"
    gk = group_kind(g)
    if where in ("ske", "cke"):
        ver = [(3, 3), (3, 1), (3, 2), (3, 0)][ch.draw(4, "s.ver")]
        anon = where == "ske" or ch.draw(2, "s.anon") == 1
        sc = {"version": list(ver),
              "cset": {"minVersion": list(ver), "maxVersion": list(ver)},
              "sset": {"minVersion": list(ver), "maxVersion": list(ver)}}
        if anon:
            sc["flavour"] = "anon"
            sc["cset"]["keyExchangeNames"] = [
                "dh_anon" if gk == "ffdh" else "ecdh_anon"]
        else:
            sc["flavour"] = "cert"
            sc["skey"] = "rsa"
            sc["cset"]["keyExchangeNames"] = [
                "dhe_rsa" if gk == "ffdh" else "ecdhe_rsa"]
        if gk == "ffdh":
            sc["cset"]["dhGroups"] = [g]
            sc["sset"]["dhGroups"] = [g]
        else:
            sc["cset"]["eccCurves"] = [g]
            sc["sset"]["eccCurves"] = [g]
            sc["cset"]["keyShares"] = []
            sc["sset"]["keyShares"] = []
        victim = "c" if where == "ske" else "s"
    else:
        sc = {"version": [3, 4], "flavour": "cert", "skey": "rsa",
              "cset": {"minVersion": [3, 4], "maxVersion": [3, 4]},
              "sset": {"minVersion": [3, 4], "maxVersion": [3, 4]}}
        for side in ("cset", "sset"):
            if gk == "ffdh":
                sc[side]["dhGroups"] = [g]
                sc[side]["eccCurves"] = ["secp256r1"]
                sc[side]["keyShares"] = [g]
            else:
                sc[side]["eccCurves"] = [g]
                sc[side]["keyShares"] = [g]
        victim = "s" if where == "tls13_client" else "c"
    probes["share_" + gk] = 1
    probes["share_" + where] = 1
    ctx[0] = "[where=%s group=%s scenario=%s]" % (
        where, g, json.dumps(sc, sort_keys=True))
    fired = []
    desc = {}

    def rule(msg, c):
        name = type(msg).__name__
        if fired:
            return None
        if where == "ske" and name == "ServerKeyExchange":
            if gk == "ffdh" and getattr(msg, "dh_Ys", None):
                nv = bad_share_values("ffdh", ch, {"p": msg.dh_p})
                desc["val"] = hex(nv)[:40]
                msg.dh_Ys = nv
                fired.append(1)
                return [msg]
            if gk != "ffdh" and getattr(msg, "ecdh_Ys", None):
                nv = bad_share_values(gk, ch, {"bytes": msg.ecdh_Ys})
                desc["val"] = bytes(nv).hex()[:40]
                msg.ecdh_Ys = nv
                fired.append(1)
                return [msg]
        if where == "cke" and name == "ClientKeyExchange":
            if gk == "ffdh" and getattr(msg, "dh_Yc", None):
                from tlslite.mathtls import RFC7919_GROUPS
                idx = ["ffdhe2048", "ffdhe3072", "ffdhe4096", "ffdhe6144",
                       "ffdhe8192"].index(g)
                p = RFC7919_GROUPS[idx][1]
                nv = bad_share_values("ffdh", ch, {"p": p})
                desc["val"] = hex(nv)[:40]
                msg.dh_Yc = nv
                fired.append(1)
                return [msg]
            if gk != "ffdh" and getattr(msg, "ecdh_Yc", None):
                nv = bad_share_values(gk, ch, {"bytes": msg.ecdh_Yc})
                desc["val"] = bytes(nv).hex()[:40]
                msg.ecdh_Yc = nv
                fired.append(1)
                return [msg]
        if where == "tls13_client" and name == "ClientHello":
            from tlslite.constants import ExtensionType
            e = msg.getExtension(ExtensionType.key_share)
            if e and e.client_shares:
                sh = e.client_shares[0]
                if gk == "ffdh":
                    from tlslite.mathtls import RFC7919_GROUPS
                    idx = ["ffdhe2048", "ffdhe3072", "ffdhe4096",
                           "ffdhe6144", "ffdhe8192"].index(g)
                    p = RFC7919_GROUPS[idx][1]
                    nv = bad_share_values("ffdh", ch, {"p": p,
                                                        "fixed_len": True})
                    ln = len(sh.key_exchange)
                    nv = nv % (1 << (8 * ln))
                    desc["val"] = hex(nv)[:40]
                    sh.key_exchange = bytearray(nv.to_bytes(ln, "big"))
                else:
                    nv = bad_share_values(gk, ch, {"bytes": sh.key_exchange,
                                                   "tls13": True})
                    desc["val"] = bytes(nv).hex()[:40]
                    sh.key_exchange = nv
                fired.append(1)
                return [msg]
        if where == "tls13_server" and name == "ServerHello":
            from tlslite.constants import ExtensionType
            e = msg.getExtension(ExtensionType.key_share)
            if e and getattr(e, "server_share", None):
                sh = e.server_share
                if gk == "ffdh":
                    from tlslite.mathtls import RFC7919_GROUPS
                    idx = ["ffdhe2048", "ffdhe3072", "ffdhe4096",
                           "ffdhe6144", "ffdhe8192"].index(g)
                    p = RFC7919_GROUPS[idx][1]
                    nv = bad_share_values("ffdh", ch, {"p": p,
                                                        "fixed_len": True})
                    ln = len(sh.key_exchange)
                    nv = nv % (1 << (8 * ln))
                    desc["val"] = hex(nv)[:40]
                    sh.key_exchange = bytearray(nv.to_bytes(ln, "big"))
                else:
                    nv = bad_share_values(gk, ch, {"bytes": sh.key_exchange,
                                                   "tls13": True})
                    desc["val"] = bytes(nv).hex()[:40]
                    sh.key_exchange = nv
                fired.append(1)
                return [msg]
        return None

    sim = nodes.new_run(seed, chooser=ch, max_steps=100000, sched="first")
    try:
        pair = nodes.Pair(sim, sc, policy="ideal")
    except ValueError:
        return _res(job, ch, sim, sc, viol, probes, False, "cfg")
    peer = pair.s if victim == "c" else pair.c
    vic = pair.c if victim == "c" else pair.s
    byz.Interposer(peer.conn, [rule])
    vtap = taps.SendTap(vic.conn)
    vtap.keep_plain = True
    oc, os_, st = pair.handshake()
    vo = oc if victim == "c" else os_
    ctx[0] = "[where=%s group=%s bad=%s scenario=%s]" % (
        where, g, desc.get("val"), json.dumps(sc, sort_keys=True))
    if fired:
        # the value has to be refused where it is read, not "later, when
        # something else fails": what the victim sent after it
        from sim import observe
        sent = [m[0] for m in observe.split_hs(
            [r[4] for r in vtap.records if r[0] == 22])]
        went_on = None
        if where == "tls13_client" and 2 in sent:
            went_on = "ServerHello"
        elif where == "tls13_server" and 20 in sent:
            went_on = "Finished"
        elif where == "ske" and 16 in sent:
            went_on = "ClientKeyExchange"
        if went_on:
            v("bad_share_processed", "%s|%s" % (where, gk),
              "victim answered an invalid peer share with %s instead of "
              "refusing it" % went_on)
        if vo.kind == "ok":
            v("bad_share_accepted", "%s|%s" % (where, gk),
              "victim completed the handshake with an invalid peer share")
        elif vo.kind == "exc":
            from tlslite.errors import BaseTLSException
            if not isinstance(vo.exc, (BaseTLSException, OSError)):
                from sim.trace import where as wh
                v("bad_share_crash", "%s|%s|%s|%s" % (
                    where, gk, type(vo.exc).__name__, wh(vo.exc)),
                  "victim raised %r for an invalid peer share" % (vo.exc,))
    return _res(job, ch, sim, sc, viol, probes, bool(fired),
                repr((where, g, desc, vo.sig())))


def run_agree(job, ch, seed, v, viol, probes, ctx):
    g = GROUPS[ch.draw(len(GROUPS), "a.group")]
    tls13 = ch.draw(2, "a.13") == 1 and g != "brainpoolP256r1"
    if job.get("force"):
        g, tls13 = job["force"]
        probes["agree_ffdhe_tls13_volume"] = 1
    gk = group_kind(g)
    ver = (3, 4) if tls13 else [(3, 3), (3, 1), (3, 2)][ch.draw(3, "a.ver")]
    sc = {"version": list(ver), "flavour": "cert", "skey": "rsa",
          "cset": {"minVersion": list(ver), "maxVersion": list(ver)},
          "sset": {"minVersion": list(ver), "maxVersion": list(ver)}}
    for side in ("cset", "sset"):
        if gk == "ffdh":
            sc[side]["dhGroups"] = [g]
            if tls13:
                sc[side]["eccCurves"] = ["secp256r1"]
                sc[side]["keyShares"] = [g]
        else:
            sc[side]["eccCurves"] = [g]
            sc[side]["keyShares"] = [g] if tls13 else []
    if not tls13:
        sc["cset"]["keyExchangeNames"] = ["dhe_rsa" if gk == "ffdh"
                                          else "ecdhe_rsa"]
    ctx[0] = "[agree group=%s scenario=%s]" % (g, json.dumps(sc,
                                                             sort_keys=True))
    sim = nodes.new_run(seed, chooser=ch, max_steps=100000)
    pair = nodes.Pair(sim, sc, policy="ideal" if job.get("force")
                      else "random", wb_budget=kernel.Budget(10),
                      delay_budget=kernel.Budget(10))
    oc, os_, st = pair.handshake()
    ok = oc.kind == "ok" and os_.kind == "ok"
    if not ok:
        v("honest_failed", "%s|%s" % (g, ver), "honest %s handshake failed: "
          "%r %r" % (g, oc.exc, os_.exc))
    else:
        vc, vs = views.view(pair.c.conn), views.view(pair.s.conn)
        for f in ("master", "cl_app", "sr_app", "exporter"):
            if vc[f] != vs[f]:
                v("secret_mismatch", "%s|%s" % (g, f), "%s differs after an "
                  "honest %s exchange" % (f, g))
    return _res(job, ch, sim, sc, viol, probes, ok,
                "agree:%s:%d" % (g, seed))


def _res(job, ch, sim, sc, viol, probes, nontrivial, tag):
    key = hashlib.sha256(json.dumps([sc, tag], sort_keys=True,
                                    default=str).encode()).hexdigest()
    h = hashlib.sha256()
    h.update(tag.encode())
    h.update(json.dumps([x["sig"] for x in viol]).encode())
    h.update(ch.digest().encode())
    for l in sim.links:
        h.update(bytes(l.c2s.wire_log))
        h.update(bytes(l.s2c.wire_log))
    return {"violations": viol, "nontrivial": nontrivial, "key": key,
            "digest": h.hexdigest(), "faults": dict(sim.stats),
            "probes": probes, "steps": sim.steps, "order": "",
            "states": [tag[:60]], "streams": ch.streams(),
            "inconclusive": False, "sample": {"scenario": sc, "tag": tag}}
