"""C06 - handshake messages are accepted only in the order the protocol
allows; renegotiation attempts after completion are refused."""

import hashlib
import json

from sim import kernel
kernel.boot()
from sim import nodes, scen, taps, byz, script as sim_script   # noqa: E402
from model import grammar as G                                 # noqa: E402

ID = "C06"
LEVEL = "exploration"
RULE = ("job = seed -> scenario (version x flavour x options incl. client "
        "auth, tickets, NPN, HRR, PSK) x victim role; the peer is a "
        "consistent byzantine endpoint (real TLSConnection whose send path "
        "is interposed before transcript hashing).  A fault-free run of the "
        "same seed yields the peer's honest message sequence; one deviation "
        "is applied: skip / dup / swap-with-next / insert / replace at a "
        "drawn index, inserted messages drawn from {HelloRequest, "
        "ChangeCipherSpec, KeyUpdate, NewSessionTicket, Finished, "
        "ServerHelloDone, empty Certificate, early ApplicationData, copy of "
        "an earlier message}.  family 'reneg': after an honest handshake the "
        "peer sends ClientHello / HelloRequest inside the session, and the "
        "victim calls handshake*() again.  Oracle: model/grammar.py says the "
        "resulting sequence is illegal => the victim must not complete and "
        "must not deliver application data; any victim failure is a fatal "
        "alert.  distinct = digest(scenario, victim, deviation); non-trivial "
        "= the deviation was actually emitted and the victim reached a "
        "verdict"
        " The exhaustive grid also inserts copies (byte snapshots) of the peer's own first messages and a PROTECTED change_cipher_spec; abort-point oracle: after the first out-of-place message the victim may only send a fatal alert (a warning alert followed by carrying on is a violation)."
        ' Further inserted / replacing records: warning alert no_certificate, empty application_data; scenarios "certificate requested, client has none" and a 0-RTT offering client negotiated down to TLS 1.2 (early-data window).'
        ' prot_ccs_pad: protected CCS carrying TLS 1.3 record padding.'
        " The victim's transport may fail (timeout / EPIPE / reset) exactly while it writes its fatal alert."
        " Family merge: the message that belongs after the first TLS 1.3 key change is packed, unprotected, into the record of the peer's hello (transcript unchanged).")
LEVEL_TEXT = ("Seeded search over single deviations of every message index of "
              "the drawn handshake flavours; the legality table is written "
              "from the RFCs (ambiguous cases yield no verdict), the peer's "
              "later messages stay consistent with its lie so a victim that "
              "skipped a check would really complete.")
LEVEL_NOTE = ("Trusted: model/grammar.py, the interposer.  The byzantine "
              "peer is built from tlslite's own encoder.  Only single "
              "deviations (plus the honest twin) are explored, not pairs.")
BUDGET = {"quick": 300, "thorough": 1200}
CHUNK = 8
PROBES = ["skip", "dup", "swap", "insert", "replace", "append",
          "reneg_client_hello",
          "reneg_hello_request", "second_handshake_call", "victim_client",
          "victim_server", "tls13", "legacy", "early_appdata", "early_ccs",
          "illegal_rejected", "legal_accepted", "wrong_epoch",
          "protected_ccs", "alert_write_fault",
          "merged_across_key_change"]
COMPONENTS_REAL = ["tlslite handshake state machines of both roles, "
                   "_getMsg expected-type logic, Defragmenter"]
COMPONENTS_STUB = ["socket", "os.urandom", "clock",
                   "peer = real TLSConnection with interposed send path"]
ASSUMPTIONS = ["single deviation per run"]


def grid_jobs(base_seed):
    """Every single deviation (op x index x inserted message) of a fixed set
    of scenarios x both victim roles; the deviation is passed as preset
    choice streams."""
    from checks import c17
    jobs = []
    for si in range(len(c17.SCENARIOS)):
        for victim in (0, 1):
            for idx in range(8):
                for op in (0, 1, 2):
                    jobs.append({"seed": base_seed * 1000003 + si, "fam":
                                 "dev", "grid": si, "preset": {
                                     "cfg.victim": [victim], "d.op": [op],
                                     "d.idx": [idx]}})
                # a copy of the peer's own first / second message (a second
                # ClientHello / ServerHello ...) inserted before message idx
                for cp in (0, 1):
                    if cp < idx:
                        jobs.append({"seed": base_seed * 1000003 + si,
                                     "fam": "dev", "grid": si, "preset": {
                                         "cfg.victim": [victim],
                                         "d.op": [3], "d.idx": [idx],
                                         "d.extra": [EXTRAS.index("copy")],
                                         "d.copy": [cp]}})
                for op, nex in ((3, len(EXTRAS)), (4, len(EXTRAS)), (5, 5)):
                    for e in range(nex):
                        if EXTRAS[e] == "copy" and op != 5:
                            continue
                        jobs.append({"seed": base_seed * 1000003 + si,
                                     "fam": "dev", "grid": si, "preset": {
                                         "cfg.victim": [victim],
                                         "d.op": [op], "d.idx": [idx],
                                         "d.extra": [e]}})
    return jobs


def plan(tier, base_seed):
    n = {"quick": 1500, "thorough": 400000}[tier]
    jobs = grid_jobs(base_seed)
    from checks import c17
    for si in range(len(c17.SCENARIOS)):
        if c17.SCENARIOS[si]["version"] == [3, 4]:
            for victim in (0, 1):
                jobs.append({"seed": base_seed * 1000003 + si, "fam": "merge",
                             "grid": si, "preset": {"cfg.victim": [victim]}})
    for i in range(n):
        fam = "reneg" if i % 10 == 9 else "dev"
        jobs.append({"seed": base_seed * 1000003 + i, "fam": fam})
    for j in jobs[:3]:
        j["keep"] = True
    return jobs


def mtype(m):
    ct = getattr(m, "contentType", None)
    if ct == 20:
        return G.CCS
    if ct == 23:
        return G.APPDATA
    if ct == 21:
        return G.ALERT_NOCERT
    return getattr(m, "handshakeType", None)


def make_extra(kind, ver, captured):
    from tlslite import messages as M
    if kind == "hello_request":
        return M.HelloRequest().create()
    if kind == "ccs":
        return M.ChangeCipherSpec().create()
    if kind in ("prot_ccs", "prot_ccs_pad"):
        if tuple(ver) >= (3, 4):
            return byz.ProtectedCCS(pad=0 if kind == "prot_ccs" else 3)
        return M.ChangeCipherSpec().create()
    if kind == "key_update":
        return M.KeyUpdate().create(0)
    if kind == "nst":
        if tuple(ver) >= (3, 4):
            return M.NewSessionTicket().create(3600, 1, bytearray(b"n"),
                                               bytearray(b"ticket"), [])
        return M.NewSessionTicket1_0().create(3600, bytearray(b"ticket"))
    if kind == "finished":
        f = M.Finished(tuple(ver) if tuple(ver) < (3, 4) else (3, 4), 32)
        return f.create(bytearray(32 if tuple(ver) >= (3, 4) else 12))
    if kind == "shd":
        return M.ServerHelloDone().create()
    if kind == "appdata":
        return M.ApplicationData().create(bytearray(b"EARLY-DATA"))
    if kind == "empty_appdata":
        return M.ApplicationData().create(bytearray(0))
    if kind == "alert_no_cert":
        return M.Alert().create(41, 1)
    if kind == "copy":
        return captured
    if kind == "cert_req":
        from tlslite.constants import ClientCertificateType
        cr = M.CertificateRequest(tuple(ver))
        if tuple(ver) >= (3, 4):
            return cr.create(context=bytearray(b""),
                             sig_algs=[(4, 1), (8, 4), (4, 3)])
        return cr.create([ClientCertificateType.rsa_sign], [],
                         [(4, 1), (2, 1), (4, 3)])
    if kind == "empty_cert":
        from tlslite.constants import CertificateType
        from tlslite.x509certchain import X509CertChain
        c = M.Certificate(CertificateType.x509, tuple(ver))
        return c.create(X509CertChain([]))
    raise ValueError(kind)


EXTRAS = ["ccs", "hello_request", "key_update", "nst", "finished", "shd",
          "appdata", "copy", "empty_cert", "cert_req", "prot_ccs",
          "empty_appdata", "alert_no_cert", "prot_ccs_pad"]
EXTRA_TYPE = {"ccs": G.CCS, "hello_request": G.HELLO_REQUEST,
              "key_update": G.KEY_UPDATE, "nst": G.NST,
              "finished": G.FINISHED, "shd": G.SHD, "appdata": G.APPDATA,
              "empty_cert": G.CERT, "cert_req": G.CERT_REQ,
              "prot_ccs": G.CCS, "prot_ccs_pad": G.CCS,
              "empty_appdata": G.APPDATA,
              "alert_no_cert": G.ALERT_NOCERT}


def build(seed, sc, chooser, victim, rules):
    sim = nodes.new_run(seed, chooser=chooser, max_steps=100000,
                        sched="first")
    pair = nodes.Pair(sim, sc, policy="ideal")
    peer = pair.s if victim == "c" else pair.c
    vic = pair.c if victim == "c" else pair.s
    if sc.get("early_data") and victim == "s":
        # a 0-RTT offering client (tlslite's own client never is one): its
        # FIRST ClientHello carries the early_data extension
        nch = [0]

        def early_rule(msg, c):
            if type(msg).__name__ == "ClientHello":
                nch[0] += 1
                if nch[0] == 1 and msg.extensions is not None:
                    from tlslite.extensions import TLSExtension
                    # (pre_shared_key has to stay the last extension)
                    at = len(msg.extensions)
                    if at and msg.extensions[-1].extType == 41:
                        at -= 1
                    msg.extensions.insert(
                        at, TLSExtension(extType=42).create(bytearray()))
            return None
        rules = [early_rule] + list(rules)
    ip = byz.Interposer(peer.conn, rules)
    mt = taps.MsgTap(vic.conn)
    return sim, pair, peer, vic, ip, mt


def run(job, streams=None):
    from tlslite.errors import (TLSLocalAlert, TLSRemoteAlert,
                                TLSAbruptCloseError)
    seed = job["seed"]
    if streams is None and job.get("preset") is not None:
        streams = job["preset"]
    ch = kernel.Chooser(seed=seed) if streams is None else \
        kernel.Chooser(streams=streams)
    if job.get("grid") is not None:
        from checks import c17
        sc = c17.full_scenario(job["grid"])
        sc.pop("sni", None)
    else:
        sc = scen.draw_flavour(ch)
    if ch.draw(6, "cfg.npn") == 1 and tuple(sc["version"]) < (3, 4):
        sc["npn_c"] = ["h2", "http/1.1"]
        sc["npn_s"] = ["http/1.1"]
    ver = tuple(sc["version"])
    victim = "cs"[ch.draw(2, "cfg.victim")]
    pname = "s" if victim == "c" else "c"
    viol = []
    probes = {"victim_client" if victim == "c" else "victim_server": 1,
              "tls13" if ver == (3, 4) else "legacy": 1}
    ctx = "[victim=%s scenario=%s" % (victim, json.dumps(sc, sort_keys=True))

    def v(rule, sig, msg):
        viol.append({"rule": rule, "sig": sig, "msg": msg + " " + ctxfull[0]})
    ctxfull = [ctx + "]"]

    # ---- honest twin
    sim0, pair0, peer0, vic0, ip0, mt0 = build(seed, sc,
                                               kernel.Chooser(streams={}),
                                               victim, [])
    captured = []

    def cap_rule(msg, c):
        captured.append(msg)
        return None
    ip0.rules.append(cap_rule)
    oc0, os0, st0 = pair0.handshake()
    if not (oc0.kind == "ok" and os0.kind == "ok"):
        return _res(job, ch, sim0, sc, viol, probes, False, "honest_failed",
                    None)
    # honest data exchange (NST / post-handshake messages of TLS 1.3 flow)
    eps0 = {"c": pair0.c, "s": pair0.s}

    def data_script():
        return [[pname, "write", 20], [victim, "read", 20]]

    def op_gen(ep, op):
        if op[1] == "write":
            return lambda: ep.conn.writeAsync(b"D" * op[2])
        if op[1] == "read":
            return lambda: ep.conn.readAsync(None, op[2])
        if op[1] == "send":
            return lambda: ep.conn._sendMsg(op[2])
        if op[1] == "rehandshake":
            return lambda: (ep.conn.handshakeClientCert(async_=True)
                            if ep.name == "c" else
                            ep.conn.handshakeServerAsync())
    stx = sim_script.run_script(sim0, eps0, data_script(), op_gen)
    seq = [mtype(m) for m in captured]
    nhs = len(seq)

    if job["fam"] == "reneg":
        return run_reneg(job, ch, seed, sc, victim, pname, v, viol, probes,
                         captured, op_gen, ctxfull)
    if job["fam"] == "merge":
        return run_merge(job, ch, seed, sc, victim, pname, v, viol, probes,
                         captured, op_gen, ctxfull)

    # ---- draw a deviation
    op = ["skip", "dup", "swap", "insert", "replace", "append"][
        ch.draw(6, "d.op")]
    lo = 1 if pname == "c" else 0
    if op == "swap":
        if nhs - lo < 2:
            op = "dup"
    i = lo + ch.draw(max(1, nhs - lo - (1 if op == "swap" else 0)), "d.idx")
    extra_kind = None
    extra_t = None
    if op == "append":
        # pack a second handshake message into the SAME record as message i
        # (only handshake messages can share a record)
        if seq[i] in (G.CCS, G.APPDATA):
            op = "dup"
        else:
            extra_kind = ["key_update", "nst", "finished", "copy",
                          "hello_request"][ch.draw(5, "d.extra")]
            if extra_kind == "copy" and i == 0:
                extra_kind = "key_update"
            if extra_kind == "copy":
                extra_obj_idx = ch.draw(i, "d.copy")
                extra_t = seq[extra_obj_idx]
                if extra_t in (G.CCS, G.APPDATA):
                    extra_kind = "key_update"
            if extra_kind != "copy":
                extra_t = EXTRA_TYPE[extra_kind]
                extra_obj_idx = None
    if op in ("insert", "replace"):
        extra_kind = EXTRAS[ch.draw(len(EXTRAS), "d.extra")]
        if extra_kind == "copy" and i == 0:
            extra_kind = "finished"
        if extra_kind == "copy":
            j = ch.draw(i, "d.copy")          # an earlier message
            extra_t = seq[j]
            extra_obj_idx = j
        else:
            extra_t = EXTRA_TYPE[extra_kind]
            extra_obj_idx = None
        if op == "replace" and extra_t == seq[i] and \
                extra_kind in ("ccs", "shd", "hello_request", "copy"):
            # replacing a message by an identical one is no deviation
            op = "dup"
            extra_kind = extra_t = None
    dev = {"op": op, "idx": i, "msg": G.name(seq[i]),
           "extra": extra_kind, "extra_type": G.name(extra_t)
           if extra_t is not None else None}
    ctxfull[0] = ctx + " deviation=%s honest_seq=%s]" % (
        json.dumps(dev), [G.name(t) for t in seq])
    legal = G.legal(op, ver, pname, seq, i, extra_t,
                    kex="srp" if sc.get("flavour") in ("srp", "srp_cert")
                    else None,
                    early=bool(sc.get("early_data")) and victim == "s")
    # the message whose receipt completes the victim's handshake
    fins = [k for k, t in enumerate(seq) if t == G.FINISHED]
    comp = fins[-1] if fins else len(seq)
    pre = i < comp or (i == comp and (
        op not in ("dup", "append") or (op == "append" and ver == (3, 4))))
    probes[op] = 1
    if extra_kind == "appdata":
        probes["early_appdata"] = 1
    if extra_kind == "ccs":
        probes["early_ccs"] = 1
    if ver < (3, 4) and (G.CCS in (seq[i], extra_t) or
                         (op == "swap" and seq[i + 1] == G.CCS)):
        probes["wrong_epoch"] = 1

    held = []
    fired = []
    cap2 = []
    made = []

    def rule(msg, c):
        k = c.cur_index
        # snapshot: tlslite updates its ClientHello object in place for the
        # second flight after a HelloRetryRequest
        from tlslite.messages import Message
        snap = Message(msg.contentType, bytearray(msg.write()))
        if hasattr(msg, "handshakeType"):
            snap.handshakeType = msg.handshakeType
        cap2.append(snap)
        if held and k == i + 1:
            first = held.pop()
            fired.append("swap")
            return [msg, first]
        if k != i:
            return None
        fired.append(op)
        if op == "skip":
            return []
        if op == "dup":
            return [msg, msg]
        if op == "swap":
            held.append(msg)
            return []
        ex = cap2[extra_obj_idx] if extra_kind == "copy" and \
            extra_obj_idx < len(cap2) else \
            (msg if extra_kind == "copy" else
             make_extra(extra_kind, ver, None))
        made.append(ex)
        if op == "insert":
            return [ex, msg]
        if op == "append":
            from tlslite.messages import Message
            return [Message(22, bytearray(msg.write()) +
                            bytearray(ex.write()))]
        return [ex]

    sim, pair, peer, vic, ip, mt = build(seed, sc, ch, victim, [rule])
    # the victim's transport may fail exactly while it writes its fatal alert:
    # an illegal sequence must still not complete
    awf = [None, None, None, "timeout", "epipe", "reset"][
        ch.draw(6, "cfg.awf")]
    awf_tap = taps.AlertWriteFault(vic.conn, vic.sock, awf) if awf else None
    rt = taps.RecvTap(vic.conn)
    vst = taps.SendTap(vic.conn)
    vst.keep_plain = True
    oc, os_, st = pair.handshake()
    vo = oc if victim == "c" else os_
    po = os_ if victim == "c" else oc
    eps = {"c": pair.c, "s": pair.s}
    if extra_kind in ("prot_ccs", "prot_ccs_pad") and made and \
            getattr(made[0], "was_protected", None):
        # a protected change_cipher_spec is never acceptable (RFC 8446 s5)
        legal = False
        probes["protected_ccs"] = 1
    delivered = b""
    if vo.kind == "ok":
        # does the victim hand out application data?
        scr = []
        if po.kind == "ok":
            scr.append([pname, "write", 20])
        scr.append([victim, "read", 1])
        st2 = sim_script.run_script(sim, eps, scr, op_gen)
        for o in vic.history[1:]:
            if o.desc[0] == "read" and o.kind == "ok":
                delivered += bytes(o.value)
    completed = vo.kind == "ok"
    verdict = False
    if awf_tap is not None and awf_tap.fired:
        probes["alert_write_fault"] = 1
    if fired:
        if completed and not pre:
            verdict = True
            if legal is False:
                rd = [o for o in vic.history[1:] if o.desc[0] == "read"]
                if rd and rd[-1].kind == "ok" and len(rd[-1].value) > 0:
                    v("illegal_post_handshake_message_ignored",
                      "%s|%s|%s|%s" % (op, G.name(seq[i]),
                                       G.name(extra_t) if extra_t is not None
                                       else "-", "tls13" if ver == (3, 4)
                                       else "legacy"),
                      "after completion the victim silently skipped a "
                      "message that is not permitted there and went on "
                      "delivering data")
                elif rd and rd[-1].kind == "exc":
                    probes["illegal_rejected"] = 1
                    if not isinstance(rd[-1].exc, (
                            TLSLocalAlert, TLSRemoteAlert,
                            TLSAbruptCloseError, OSError)):
                        from sim.trace import where
                        v("abort_without_alert", "%s|%s" % (
                            type(rd[-1].exc).__name__, where(rd[-1].exc)),
                          "victim read failed with %r instead of a fatal "
                          "alert" % (rd[-1].exc,))
        elif completed:
            verdict = True
            if legal is False:
                v("illegal_sequence_accepted",
                  "%s|%s|%s|%s" % (op, G.name(seq[i]),
                                   G.name(extra_t) if extra_t is not None
                                   else "-", "tls13" if ver == (3, 4)
                                   else "legacy"),
                  "victim completed the handshake although the peer's "
                  "message sequence is not permitted")
            elif legal is True:
                probes["legal_accepted"] = 1
        elif vo.kind == "exc":
            verdict = True
            e = vo.exc
            if legal is False:
                probes["illegal_rejected"] = 1
            if isinstance(e, TLSLocalAlert):
                if e.level != 2:
                    v("non_fatal_abort", str(e.description), "victim aborted "
                      "with a non-fatal alert %r" % (e,))
            elif isinstance(e, (TLSRemoteAlert, TLSAbruptCloseError,
                                OSError)):
                pass        # the byzantine peer gave up first
            else:
                from sim.trace import where
                v("abort_without_alert", "%s|%s" % (type(e).__name__,
                                                   where(e)),
                  "victim failed with %r instead of a fatal alert" % (e,))
        # ---- abort point: after reading the first message that is out of
        # place the victim may send an alert, nothing else
        if legal is False and op in ("insert", "replace", "swap", "dup"):
            emitted = [G.CCS if d[0] == 20 else (
                G.APPDATA if d[0] == 23 else (
                    G.ALERT_NOCERT if d[0] == 21 else d[1]))
                for d in ip.sent if d[0] in (20, 21, 22, 23)]
            # first emitted message that is out of place; optional messages
            # of the honest flight (CertificateRequest) may simply be absent
            hon = list(seq)
            j = 0
            while j < len(emitted) and j < len(hon):
                if emitted[j] == hon[j]:
                    j += 1
                elif hon[j] == G.CERT_REQ and j + 1 < len(hon) and \
                        emitted[j] == hon[j + 1]:
                    del hon[j]
                else:
                    break
            if op == "dup":
                j = i + 1
            # the victim's received items, each with the stamp of the record
            # that carried its first byte
            items = []
            buf = b""
            bstamp = None
            for (typ, data), stp in zip(rt.accepted, rt.stamps):
                if typ in (20, 21, 23):
                    items.append(stp)
                elif typ == 22:
                    if not buf:
                        bstamp = stp
                    buf += data
                    while len(buf) >= 4:
                        ln = int.from_bytes(buf[1:4], "big")
                        if len(buf) < 4 + ln:
                            break
                        items.append(bstamp)
                        buf = buf[4 + ln:]
                        bstamp = stp
            if j < len(emitted) and j < len(items):
                t_j = items[j]
                later = [r for r in vst.records
                         if r[5] > t_j and r[0] in (20, 22)]
                warn = [r for r in vst.records
                        if r[5] > t_j and r[0] == 21 and r[4] and
                        len(r[4]) == 2 and r[4][0] == 1 and r[4][1] != 0]
                if warn and not later:
                    v("continued_after_illegal_message",
                      "%s|%s|%s|%s|warning" % (
                          op, G.name(seq[i]), G.name(extra_t)
                          if extra_t is not None else "-",
                          "tls13" if ver == (3, 4) else "legacy"),
                      "the victim answered a handshake message that is not "
                      "permitted at that point with a warning alert (%d) and "
                      "carried on with the handshake" % warn[0][4][1])
                if later:
                    v("continued_after_illegal_message",
                      "%s|%s|%s|%s" % (op, G.name(seq[i]),
                                       G.name(extra_t) if extra_t is not None
                                       else "-", "tls13" if ver == (3, 4)
                                       else "legacy"),
                      "after reading a message that is not permitted at "
                      "that point the victim went on and sent %d more "
                      "handshake/CCS record(s) instead of aborting" %
                      len(later))
        early = [a for a in rt.accepted if a[0] == 23 and a[1]]
        if legal is False and delivered and not completed:
            v("data_before_completion", op, "victim delivered application "
              "data although its handshake did not complete")
        if extra_kind == "appdata" and delivered.startswith(b"EARLY") \
                and pre:
            v("early_appdata_delivered", op, "victim delivered application "
              "data that was sent inside the handshake")
    return _res(job, ch, sim, sc, viol, probes, verdict,
                repr((oc.sig(), os_.sig(), dev)), dev)


def run_merge(job, ch, seed, sc, victim, pname, v, viol, probes, captured,
              op_gen, ctxfull):
    """Wrong epoch by packing: the peer puts the message that belongs AFTER a
    key change into the same (unprotected) record as its hello.  Its own
    transcript stays consistent (same messages, same order)."""
    from tlslite.messages import Message
    sim, pair, peer, vic, ip, mt = build(seed, sc, ch, victim, [])
    names = [type(m).__name__ for m in captured]
    first = "ServerHello" if pname == "s" else "ClientHello"
    k = max([i for i, n in enumerate(names) if n == first] or [-1])
    if k < 0 or k + 1 >= len(captured) or tuple(sc["version"]) != (3, 4):
        return _res(job, ch, sim, sc, viol, probes, False, "merge_na", None)
    nxt = captured[k + 1]
    if getattr(nxt, "contentType", 22) != 22:
        # (compatibility CCS in between: take the message after it)
        if k + 2 >= len(captured):
            return _res(job, ch, sim, sc, viol, probes, False, "merge_na",
                        None)
        nxt = captured[k + 2]
    nxt_name = type(nxt).__name__
    nxt_bytes = bytes(nxt.write())
    state = {"hello_seen": 0, "done": False}
    want_hello = names.count(first)

    def rule(msg, c):
        n = type(msg).__name__
        if n == first:
            state["hello_seen"] += 1
            if state["hello_seen"] == want_hello:
                state["done"] = True
                return [byz.MergedRecord(msg, nxt_bytes)]
            return None
        if state["done"] and n == nxt_name and not state.get("dropped"):
            # already on the wire with the hello; it enters the sender's
            # transcript here, at its proper place
            state["dropped"] = True
            c.conn._handshake_hash.update(bytearray(nxt_bytes))
            return []
        return None
    ip.rules.append(rule)
    oc, os_, st = pair.handshake()
    vo = oc if victim == "c" else os_
    probes["merged_across_key_change"] = 1
    ctxfull[0] = ctxfull[0][:-1] + " merge=%s+%s]" % (first, nxt_name)
    if state.get("dropped") and vo.kind == "ok":
        v("illegal_sequence_accepted", "merge|%s|%s|tls13" % (first,
                                                              nxt_name),
          "victim completed the handshake although %s travelled unprotected "
          "in the record of the %s (it belongs to the next key epoch)" %
          (nxt_name, first))
    return _res(job, ch, sim, sc, viol, probes, bool(state.get("dropped")),
                "merge", {"merge": [first, nxt_name]})


def run_reneg(job, ch, seed, sc, victim, pname, v, viol, probes, captured,
              op_gen, ctxfull):
    from tlslite import messages as M
    from tlslite.errors import TLSAlert
    ver = tuple(sc["version"])
    sim, pair, peer, vic, ip, mt = build(seed, sc, ch, victim, [])
    oc, os_, st = pair.handshake()
    eps = {"c": pair.c, "s": pair.s}
    kind = ch.draw(3, "r.kind")
    sess_before = vic.conn.session
    master_before = bytes(vic.conn.session.masterSecret)
    nontrivial = False
    if kind in (0, 1):
        if victim == "s":
            # replay of the real first ClientHello inside the session
            msg = [m for m in captured if type(m).__name__ == "ClientHello"][0]
            probes["reneg_client_hello"] = 1
        else:
            msg = M.HelloRequest().create()
            probes["reneg_hello_request"] = 1
        scr = [[pname, "send", msg], [pname, "write", 20],
               [victim, "read", 20]]
        st2 = sim_script.run_script(sim, eps, scr, op_gen)
        rd = [o for o in vic.history if o.desc[0] == "read"]
        ctxfull[0] = ctxfull[0][:-1] + " reneg=%s]" % type(msg).__name__
        if ver == (3, 4):
            # TLS 1.3 has no renegotiation: a fatal alert is the required
            # answer (RFC 8446 4.1.2 / 4.1.1)
            if rd and rd[-1].kind == "ok":
                v("reneg_tls13_tolerated", type(msg).__name__,
                  "TLS 1.3 endpoint ignored a %s received after the "
                  "handshake" % type(msg).__name__)
            nontrivial = True
        else:
            al = [a for a in mt.alerts()]
            if rd and rd[-1].kind == "ok":
                if bytes(rd[-1].value) != b"D" * 20:
                    v("reneg_data", "mismatch", "data after the "
                      "renegotiation attempt was not delivered intact")
                if not [a for a in al if a["description"] == 100]:
                    v("reneg_not_refused", type(msg).__name__,
                      "no no_renegotiation alert was sent in answer to %s" %
                      type(msg).__name__)
                nontrivial = True
            elif rd and rd[-1].kind == "exc":
                if not isinstance(rd[-1].exc, TLSAlert):
                    v("reneg_crash", type(rd[-1].exc).__name__,
                      "renegotiation attempt made read() raise %r" %
                      (rd[-1].exc,))
                nontrivial = True
        if vic.conn.session is not sess_before or \
                bytes(vic.conn.session.masterSecret) != master_before:
            v("second_handshake_started", type(msg).__name__,
              "session changed after a renegotiation attempt")
    else:
        probes["second_handshake_call"] = 1
        o = vic.start(("handshake2",), op_gen(vic, [victim, "rehandshake"]))
        sim.run()
        if not (o.kind == "exc" and isinstance(o.exc, ValueError)):
            v("second_handshake_started", "local_call",
              "second handshake call on an open connection did not raise "
              "ValueError: %r %r" % (o.kind, o.exc))
        nontrivial = True
    return _res(job, ch, sim, sc, viol, probes, nontrivial,
                "reneg%d" % kind, None)


def _res(job, ch, sim, sc, viol, probes, nontrivial, tag, dev):
    key = hashlib.sha256(json.dumps([sc, tag], sort_keys=True,
                                    default=str).encode()).hexdigest()
    h = hashlib.sha256()
    h.update(tag.encode())
    h.update(json.dumps([x["sig"] for x in viol]).encode())
    h.update(ch.digest().encode())
    for l in sim.links:
        h.update(bytes(l.c2s.wire_log))
        h.update(bytes(l.s2c.wire_log))
    return {"violations": viol, "nontrivial": nontrivial, "key": key,
            "digest": h.hexdigest(), "faults": dict(sim.stats),
            "probes": probes, "steps": sim.steps, "order": "",
            "states": ["%s/%s/%s" % (sc["version"], sc.get("flavour"),
                                     (dev or {}).get("op"))],
            "streams": ch.streams(), "inconclusive": False,
            "sample": {"scenario": sc, "deviation": dev}}
