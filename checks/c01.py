"""C01 - application data is delivered exactly, in order, for every suite and
version; no record carries more plaintext than the limit in force."""

import hashlib
import json

from sim import kernel
kernel.boot()
from sim import nodes, scen, script as sim_script, taps   # noqa: E402

ID = "C01"
LEVEL = "exploration"
RULE = ("job = seed (+ optional forced (suite, version, EtM) grid cell) -> "
        "config swarm (suite forced through settings, record_size_limit per "
        "side, TLS 1.3 padding callback, transport policy) and an op script "
        "(write/read/set recordSize on either end, boundary-biased lengths). "
        "Oracle: per-direction FIFO byte model (prefix at all times, equal at "
        "quiescence) + per-record plaintext limit computed from the two "
        "settings objects and the user recordSize. distinct = digest(scenario,"
        " script, effective choices); non-trivial = handshake completed and "
        ">= 1 byte of application data was delivered in some direction"
        ' Op alphabet also has zero-length reads (the documented poll idiom) and re-sending the SAME caller-owned bytearray object; the data phase may run on a resumed connection.'
        ' TLS 1.3 scripts also issue KeyUpdates; a last chunk may be written right before close while the peer asks for more.'
        " Full-duplex mode: each endpoint's writes run in a second lane of the same connection, interleaved by the scheduler with its parked reads (reader and writer task / thread on one connection)."
        ' Family rs_race: the application assigns recordSize (grow / shrink) while a multi-record write of the same connection is parked on a stalled transport; TLS 1.3 configurations may negotiate the limits across a HelloRetryRequest; in duplex mode recordSize assignments >= 255 are interleaved with parked writes.')
LEVEL_TEXT = ("Seeded exploration: every negotiable (suite, version) cell "
              "and EtM on/off is visited in the quick tier, then random "
              "configurations and write/read histories under benign schedule "
              "perturbation; each run is judged by a FIFO reference model and "
              "a record-limit invariant evaluated on a send-side tap and on "
              "the wire.  Sampling over payloads/histories, exhaustive over "
              "the (suite, version) grid.")
LEVEL_NOTE = ("Trusted: simulator, model/suites.py (IANA-name parser used to "
              "derive AEAD tag lengths for the wire-side limit check). 3DES "
              "payloads are capped (16 kB/s in pure Python).")
BUDGET = {"quick": 300, "thorough": 1200}
CHUNK = 4
PROBES = ["split_1n1", "empty_write", "multi_record_write", "limit_hit",
          "padding_seen", "read_max_lt_buffered", "rsl_negotiated",
          "user_recordsize", "etm", "tls13", "sslv3", "null_cipher",
          "resumed", "zero_length_read", "buffer_reused", "key_update",
          "close_with_data_in_flight", "full_duplex", "rs_race", "hrr"]
COMPONENTS_REAL = ["tlslite record layer, TLSRecordLayer read/write paths, "
                   "handshake, all pure-Python ciphers/MACs"]
COMPONENTS_STUB = ["socket (FakeSocket/Pipe)", "os.urandom (per-node PRNG)",
                   "clock"]
ASSUMPTIONS = ["benign transport only (no loss/corruption): C02/C17 cover "
               "hostile and failing transports"]

RSL = [None, 16385, 64, 65, 511, 512, 16384, 1000]
RSIZE = [16384, 1, 15, 16, 17, 255, 256, 1024]
PADS = [None, "none", "block", "max", "some"]


def grid():
    cells = []
    for ver in [(3, 0), (3, 1), (3, 2), (3, 3), (3, 4)]:
        for sid in scen.negotiable(ver):
            s = scen.all_suites()[sid]
            etms = [True, False] if (s.kind == "cbc" and ver < (3, 4)) \
                else [True]
            for etm in etms:
                cells.append([sid, list(ver), etm])
    return cells


def plan(tier, base_seed):
    jobs = []
    cells = grid()
    for i, c in enumerate(cells):
        jobs.append({"seed": base_seed * 1000003 + i, "cell": c})
    n = {"quick": 500, "thorough": 300000}[tier]
    for i in range(n):
        jobs.append({"seed": base_seed * 1000003 + 100000 + i})
    for j in jobs[:2] + jobs[len(cells):len(cells) + 2]:
        j["keep"] = True
    # the application assigns recordSize while a multi-record write of the
    # same connection is waiting for the transport
    race = []
    for ver in ([3, 4], [3, 3], [3, 1]):
        for who in "cs":
            for rs0, rs1 in ((512, 2048), (512, 128), (16384, 256),
                             (300, 16384)):
                for stall in (0, 200, rs0 + 100, 2 * rs0 + 5):
                    race.append({"seed": base_seed * 1000003 + 700000 +
                                 len(race), "fam": "rs_race",
                                 "race": [ver, who, rs0, rs1, stall]})
    return jobs[:2] + race + jobs[2:]


def draw_config(ch, cell):
    if cell is None:
        ver = scen.VERSIONS[ch.draw(len(scen.VERSIONS), "cfg.ver")]
        pool = scen.negotiable(ver)
        sid = pool[ch.draw(len(pool), "cfg.suite")]
        etm = not ch.draw(2, "cfg.etm")
    else:
        sid, ver, etm = cell[0], tuple(cell[1]), cell[2]
    sc = scen.suite_scenario(sid, ver, etm)
    rc = RSL[ch.draw(len(RSL), "cfg.rsl_c")]
    rs = RSL[ch.draw(len(RSL), "cfg.rsl_s")]
    sc["cset"]["record_size_limit"] = rc
    sc["sset"]["record_size_limit"] = rs
    if ver == (3, 4):
        sc["cset"]["padding_cb"] = PADS[ch.draw(len(PADS), "cfg.pad_c")]
        sc["sset"]["padding_cb"] = PADS[ch.draw(len(PADS), "cfg.pad_s")]
        sc["sset"]["ticket_count"] = ch.draw(3, "cfg.tickets")
        if ch.draw(3, "cfg.hrr") == 1:
            # no key share in the first ClientHello: the limits are
            # negotiated across a HelloRetryRequest
            sc["cset"]["keyShares"] = []
            sc["hrr"] = True
    sc["policy"] = ["ideal", "random", "random"][ch.draw(3, "cfg.policy")]
    # the data phase may also run on a resumed connection (abbreviated
    # handshake renegotiates the limits from the ServerHello extensions)
    r = ch.draw(5, "cfg.resume")
    if r == 1:
        sc["resume"] = "id"
    elif r == 2:
        sc["resume"] = "ticket"
        sc["sset"]["ticketKeys"] = ["66" * 32]
    return sc


def draw_script(ch, sc):
    s = scen.all_suites()[sc["suite"]]
    slow = s.cipher == "3des"
    total_cap = 3000 if slow else 90000
    one_cap = 1500 if slow else 50000
    nops = 3 + ch.draw(12, "op.n")
    out = []
    sent = {"c": [], "s": []}        # (offset, n) of every write, in order
    wrote = {"c": 0, "s": 0}
    guaranteed = {"c": 0, "s": 0}
    rsize = {"c": 16384, "s": 16384}
    for _ in range(nops):
        who = "cs"[ch.draw(2, "op.who")]
        peer = "s" if who == "c" else "c"
        k = ch.draw(13, "op.kind")
        if k in (8, 9) and tuple(sc["version"]) == (3, 4) and \
                ch.draw(2, "op.kualt") == 1:
            k = 12
        if k == 12:
            # TLS 1.3 KeyUpdate (with or without asking the peer to follow)
            if tuple(sc["version"]) == (3, 4):
                out.append([who, "ku", ch.draw(2, "op.kureq")])
            continue
        if k == 10:
            # the documented idiom for "process pending control messages":
            # a zero-length read; it must not consume application data
            # (it waits for one record when nothing is buffered, so it is
            # only issued while unread data is on its way)
            if guaranteed[who] > 0:
                out.append([who, "read", 0, 0])
            continue
        if k == 11:
            # the application sends the SAME bytearray object again
            # (a tiny recordSize turns a big chunk into thousands of records)
            prev = [c for c in sent[who] if 0 < c[1] <= 2 ** 14 + 1 and
                    (rsize[who] >= 64 or c[1] <= 4 * rsize[who])]
            if not prev or wrote["c"] + wrote["s"] > total_cap:
                continue
            off, n = prev[ch.draw(len(prev), "op.again")]
            out.append([who, "write", off, n])
            sent[who].append((off, n))
            wrote[who] += n
            guaranteed[peer] += n
            continue
        if k <= 4:
            n = scen.draw_len(ch, "op.len", cap=one_cap, record=rsize[who],
                              block=s.block or 16)
            if wrote["c"] + wrote["s"] + n > total_cap:
                n = ch.draw(40, "op.small")
            # tiny recordSize with big payloads = thousands of records
            if rsize[who] < 64:
                n = min(n, 300)
                # ... each padded to the full record by the 'max' callback
                if sc["cset" if who == "c" else "sset"].get(
                        "padding_cb") == "max":
                    n = min(n, 4 * rsize[who])
            off = max([c[0] + c[1] for c in sent[who]] or [0])
            out.append([who, "write", off, n])
            sent[who].append((off, n))
            wrote[who] += n
            guaranteed[peer] += n
        elif k <= 7:
            if guaranteed[who] == 0:
                continue
            mn = 1 + ch.draw(guaranteed[who], "op.min")
            mx = [None, mn, mn + 1, 1 << 16, max(1, mn // 2)][
                ch.draw(5, "op.max")]
            if mx is not None and mx < mn:
                mn = mx
            out.append([who, "read", mx, mn])
            guaranteed[who] -= guaranteed[who] if mx is None else \
                min(guaranteed[who], mx)
        elif k == 8:
            v = RSIZE[ch.draw(len(RSIZE), "op.rsize")]
            out.append([who, "recordsize", v])
            rsize[who] = v
        else:
            out.append([who, "write",
                        max([c[0] + c[1] for c in sent[who]] or [0]), 0])
    return out, wrote, sent


def limit_in_force(sc, sender):
    """(plaintext limit for protected records, is_tls13) for `sender`
    ('c'|'s'), from the two settings dicts only."""
    ver = tuple(sc["version"])
    mine = sc["cset" if sender == "c" else "sset"].get("record_size_limit",
                                                       16385)
    peer = sc["sset" if sender == "c" else "cset"].get("record_size_limit",
                                                       16385)
    if ver == (3, 0):
        return 2 ** 14       # SSLv3 has no extensions: nothing negotiated
    if not mine or not peer:
        return 2 ** 14 + (1 if ver == (3, 4) else 0)
    if ver == (3, 4):
        return min(2 ** 14 + 1, peer)      # inner plaintext incl. type+pad
    return min(2 ** 14, peer)


def _early(job, ch, sim, pair, sc, probes):
    h = hashlib.sha256()
    h.update(bytes(pair.link.c2s.wire_log))
    h.update(bytes(pair.link.s2c.wire_log))
    h.update(ch.digest().encode())
    return {"violations": [], "nontrivial": False,
            "key": "early", "digest": h.hexdigest(),
            "faults": dict(sim.stats), "probes": probes, "steps": sim.steps,
            "order": sim.order.hexdigest(), "states": [],
            "streams": ch.streams(), "inconclusive": False,
            "sample": {"scenario": sc}}


def run_rs_race(job):
    from sim.loop import Lane
    seed = job["seed"]
    ver, who, rs0, rs1, stall = job["race"]
    peer = "s" if who == "c" else "c"
    sid = 0x1301 if tuple(ver) == (3, 4) else 0x002f
    sc = scen.suite_scenario(sid, tuple(ver))
    ch = kernel.Chooser(streams={})
    sim = nodes.new_run(seed, chooser=ch, max_steps=200000, sched="first")
    pair = nodes.Pair(sim, sc, policy="ideal")
    viol = []
    probes = {"rs_race": 1}
    oc, os_, st = pair.handshake()
    if not (oc.kind == "ok" and os_.kind == "ok"):
        raise RuntimeError("rs_race handshake failed")
    eps = {"c": pair.c, "s": pair.s}
    A, P = eps[who], eps[peer]
    n = 3 * max(rs0, rs1) + 77 if max(rs0, rs1) < 8000 else 40000
    data = scen.payload(1 if who == "c" else 2, 0, n)
    A.conn.recordSize = rs0
    out_pipe = pair.link.c2s if who == "c" else pair.link.s2c
    A.sock.stall_after = len(out_pipe.sent_log) + stall
    W = Lane(A)
    ow = W.start(("write",), lambda: A.conn.writeAsync(data))
    while W.op is not None and W.blocked != "w":
        W.step()
    parked = W.op is not None
    A.conn.recordSize = rs1
    A.sock.stall_after = None
    orr = P.start(("read",), lambda: P.conn.readAsync(None, n))
    st = sim.run()
    got = bytes(orr.value) if orr.kind == "ok" else None
    if ow.kind != "ok" or got != data:
        k = 0
        while got and k < min(len(got), n) and got[k] == data[k]:
            k += 1
        viol.append({"rule": "fifo", "sig": "rs_race|%s" % (
            "grow" if rs1 > rs0 else "shrink"),
            "msg": "recordSize set from %d to %d while a %d-byte write was "
            "parked after %d bytes on the wire: writer %s, reader got %s "
            "bytes, first difference at %d [ver=%s who=%s]" % (
                rs0, rs1, n, stall, ow.kind if ow.kind != "exc" else
                repr(ow.exc), len(got) if got is not None else
                repr(orr.exc), k, ver, who)})
    h = hashlib.sha256()
    h.update(bytes(pair.link.c2s.wire_log))
    h.update(bytes(pair.link.s2c.wire_log))
    h.update(json.dumps([x["sig"] for x in viol]).encode())
    return {"violations": viol, "nontrivial": parked,
            "key": hashlib.sha256(json.dumps(job["race"]).encode()
                                  ).hexdigest(),
            "digest": h.hexdigest(), "faults": dict(sim.stats),
            "probes": probes, "steps": sim.steps, "order": "",
            "states": ["rs_race/%s" % ver], "streams": {},
            "inconclusive": False, "sample": {"race": job["race"]}}


def run(job, streams=None):
    if job.get("fam") == "rs_race":
        return run_rs_race(job)
    seed = job["seed"]
    ch = kernel.Chooser(seed=seed) if streams is None else \
        kernel.Chooser(streams=streams)
    sc = draw_config(ch, job.get("cell"))
    script, wrote, sent_chunks = draw_script(ch, sc)
    stream = {w: b"".join(scen.payload(1 if w == "c" else 2, off, n)
                          for off, n in sent_chunks[w]) for w in "cs"}
    suite = scen.all_suites()[sc["suite"]]
    ver = tuple(sc["version"])
    sim = nodes.new_run(seed, chooser=ch, max_steps=400000)
    pair = nodes.Pair(sim, sc, policy=sc["policy"],
                      wb_budget=kernel.Budget(40),
                      delay_budget=kernel.Budget(40))
    tap = {"c": taps.SendTap(pair.c.conn), "s": taps.SendTap(pair.s.conn)}
    viol = []
    probes = {}

    def v(rule, sig, msg):
        viol.append({"rule": rule, "sig": sig,
                     "msg": "%s [suite=%s ver=%s etm=%s]" %
                     (msg, suite.name, ver, sc["cset"].get(
                         "useEncryptThenMAC"))})

    resumed = False
    if sc.get("resume"):
        from tlslite.api import SessionCache
        cache = SessionCache() if sc["resume"] == "id" else None
        oc, os_, st = pair.handshake(cache=cache)
        if oc.kind == "ok" and os_.kind == "ok":
            # short exchange so that TLS 1.3 tickets reach the client
            first = sim_script.run_script(
                sim, {"c": pair.c, "s": pair.s},
                [["s", "w"], ["c", "r"], ["c", "close"], ["s", "r0"]],
                lambda ep, op: {
                    "w": lambda: ep.conn.writeAsync(b"first"),
                    "r": lambda: ep.conn.readAsync(None, 5),
                    "r0": lambda: ep.conn.readAsync(None, 1),
                    "close": lambda: ep.conn.closeAsync()}[op[1]])
            session = pair.c.conn.session
            sim.links.remove(pair.link)
            sim.eps.remove(pair.c)
            sim.eps.remove(pair.s)
            pair = nodes.Pair(sim, sc, policy=sc["policy"],
                              wb_budget=kernel.Budget(40),
                              delay_budget=kernel.Budget(40),
                              names=("c", "s"),
                              cnode=kernel.Node("c2", seed),
                              snode=kernel.Node("s2", seed))
            tap = {"c": taps.SendTap(pair.c.conn),
                   "s": taps.SendTap(pair.s.conn)}
            oc, os_, st = pair.handshake(session=session, cache=cache)
            resumed = bool(oc.kind == "ok" and pair.c.conn.resumed)
            if resumed:
                probes["resumed"] = 1
            if not (oc.kind == "ok" and os_.kind == "ok"):
                # whether an offered session may break a handshake is C13's
                # question, not this property's
                probes["resume_handshake_failed"] = 1
                return _early(job, ch, sim, pair, sc, probes)
    else:
        oc, os_, st = pair.handshake()
    done_hs = oc.kind == "ok" and os_.kind == "ok" and st == "idle"
    delivered = 0
    if not done_hs:
        v("handshake", "hs_failed|%s|%s" % (
            type(oc.exc).__name__ if oc.exc else oc.kind,
            type(os_.exc).__name__ if os_.exc else os_.kind),
          "forced-suite handshake did not complete: client=%r server=%r "
          "status=%s" % (oc.exc, os_.exc, st))
    else:
        if pair.c.conn.session.cipherSuite != sc["suite"]:
            v("handshake", "wrong_suite",
              "negotiated %#x instead of forced suite" %
              pair.c.conn.session.cipherSuite)
        eps = {"c": pair.c, "s": pair.s}
        got = {"c": bytearray(), "s": bytearray()}     # bytes read BY x
        rsize = {"c": 16384, "s": 16384}
        for t in tap.values():
            t.mark_app_phase()
        if ver == (3, 4):
            # HandshakeSettings.padding_cb is stored on the BufferedSocket and
            # never reaches the record layer (tlsconnection.py:489,2358), so
            # the documented RecordLayer.padding_cb ivar is set directly.
            pair.c.conn._recordLayer.padding_cb = \
                nodes.PADDING_CBS[sc["cset"].get("padding_cb")]
            pair.s.conn._recordLayer.padding_cb = \
                nodes.PADDING_CBS[sc["sset"].get("padding_cb")]

        bufs = {}
        reused = set()

        def op_gen(ep, op):
            conn = ep.conn
            if op[1] == "write":
                # the application owns its buffers: the same bytearray
                # object is handed in whenever the same chunk is sent again
                k_ = (ep.name, op[2], op[3])
                if k_ not in bufs:
                    bufs[k_] = bytearray(scen.payload(
                        1 if ep.name == "c" else 2, op[2], op[3]))
                else:
                    probes["buffer_reused"] = 1
                data = bufs[k_] if op[2] % 2 == 0 or k_ in reused else \
                    bytes(bufs[k_])
                reused.add(k_)
                return lambda: conn.writeAsync(data)
            if op[1] == "read":
                if op[2] == 0:
                    probes["zero_length_read"] = 1
                return lambda: conn.readAsync(op[2], op[3])
            if op[1] == "ku":
                probes["key_update"] = 1
                return lambda: conn.send_keyupdate_request(op[2])
            if op[1] == "close":
                return lambda: conn.closeAsync()
            if op[1] == "recordsize":
                def setrs():
                    conn.recordSize = op[2]
                    rsize[ep.name] = op[2]
                    tap[ep.name].user_limit = op[2]
                    return None
                return setrs
            raise ValueError(op)

        if ch.draw(3, "cfg.duplex") == 1:
            # full duplex: each endpoint's writes run in a lane of their own,
            # interleaved by the scheduler with its (parked) reads.  Reads
            # that make the connection write (KeyUpdate replies) would race
            # with the writer for the transport - an application error, not
            # exercised here.
            from sim.loop import Lane
            eps["cw"], eps["sw"] = Lane(pair.c), Lane(pair.s)
            # (recordSize assignments >= 255 stay with the reads: the
            # application may set the attribute while a write is parked;
            # tiny values stay in sequence with the writes - cost)
            script = [[o[0] + "w"] + o[1:] if o[1] == "write" or
                      (o[1] == "recordsize" and o[2] < 255)
                      else o for o in script if o[1] != "ku"]
            probes["full_duplex"] = 1
        st = sim_script.run_script(sim, eps, script, op_gen)
        # drain: each side reads whatever is still owed to it
        def collect():
            for w in "cs":
                n = 0
                for o in eps[w].history:
                    if o.desc[0] == "read" and o.kind == "ok" and \
                            isinstance(o.value, (bytes, bytearray)):
                        n += len(o.value)
                yield w, n
        if st == "idle":
            owed = {}
            for w, n in collect():
                peer = "s" if w == "c" else "c"
                owed[w] = wrote[peer] - n
            drain = [[w, "read", None, owed[w]] for w in "cs" if owed[w] > 0]
            if drain:
                st = sim_script.run_script(sim, eps, drain, op_gen)
        tail_min = {}
        if st == "idle" and ch.draw(2, "tail.on") == 1:
            # one side writes a last chunk and closes; its peer asks for
            # more than is coming: everything written before the
            # close_notify must still be delivered
            w = "cs"[ch.draw(2, "tail.who")]
            peer = "s" if w == "c" else "c"
            n = 1 + ch.draw(300, "tail.n")
            off = max([c[0] + c[1] for c in sent_chunks[w]] or [0])
            sent_chunks[w].append((off, n))
            stream[w] += scen.payload(1 if w == "c" else 2, off, n)
            wrote[w] += n
            tail_min[peer] = n + 40
            probes["close_with_data_in_flight"] = 1
            st = sim_script.run_script(
                sim, eps, [[w, "write", off, n], [w, "close"],
                           [peer, "read", None, n + 40]], op_gen)
        if st != "idle":
            if st == "cap":
                pass
            else:
                v("liveness", "stuck|%s" % st,
                  "script did not finish: status=%s pending=%s" %
                  (st, [(w, eps[w].cur.desc) for w in "cs"
                        if eps[w].cur is not None]))
        # ---- FIFO oracle
        for wl in ("cw", "sw"):
            for o in (eps[wl].history if wl in eps else []):
                if o.kind == "exc":
                    v("exception", "%s|%s" % (o.desc[0],
                                              type(o.exc).__name__),
                      "%s (writer lane) %r raised %r" % (wl[0], o.desc,
                                                         o.exc))
        for w in "cs":
            peer = "s" if w == "c" else "c"
            want_all = stream[peer]
            pos = 0
            for o in eps[w].history[1:]:
                if o.kind == "exc":
                    v("exception", "%s|%s" % (o.desc[0],
                                              type(o.exc).__name__),
                      "%s %r raised %r" % (w, o.desc, o.exc))
                    continue
                if o.desc[0] != "read" or o.kind != "ok":
                    continue
                data = bytes(o.value)
                mx, mn = o.desc[1], o.desc[2]
                if want_all[pos:pos + len(data)] != data:
                    # where does it diverge?
                    k = 0
                    while k < len(data) and pos + k < len(want_all) and \
                            data[k] == want_all[pos + k]:
                        k += 1
                    v("fifo", "mismatch|%s" % w,
                      "%s read #%d returned bytes that are not the next "
                      "bytes the peer wrote (stream offset %d, first "
                      "difference at +%d, got %d bytes)" %
                      (w, eps[w].history.index(o), pos, k, len(data)))
                    break
                if mx is not None and len(data) > mx:
                    v("fifo", "read_gt_max|%s" % w,
                      "read(max=%s) returned %d bytes" % (mx, len(data)))
                if len(data) < mn and not (tail_min.get(w) == mn and
                                           o is eps[w].history[-1]):
                    v("fifo", "read_lt_min|%s" % w,
                      "read(min=%s) returned %d bytes on an open "
                      "connection" % (mn, len(data)))
                if mx is not None and mx < mn + 0 and len(data) == mx:
                    pass
                pos += len(data)
            delivered += pos
            if st == "idle" and pos != wrote[peer] and not viol:
                v("fifo", "short|%s" % w,
                  "%s received %d of %d bytes at quiescence" %
                  (w, pos, wrote[peer]))
        # ---- record limit oracle
        for w in "cs":
            lim = limit_in_force(sc, w)
            peer_pipe = pair.link.c2s if w == "c" else pair.link.s2c
            res = tap[w].check(suite, ver, lim, peer_pipe, probes,
                               allow_tail=(st != "idle"))
            for rule, sig, msg in res:
                v(rule, sig + "|" + w, msg)
        # probes
        if ver <= (3, 1) and suite.kind == "cbc":
            if any(t.split_seen for t in tap.values()):
                probes["split_1n1"] = 1
        if any(o[1] == "write" and o[3] == 0 for o in script):
            probes["empty_write"] = 1
        if any(o[1] == "write" and o[3] > 2 * 16384 for o in script):
            probes["multi_record_write"] = 1
        if any(o[1] == "recordsize" for o in script):
            probes["user_recordsize"] = 1
        if sc["cset"].get("record_size_limit") and \
                sc["sset"].get("record_size_limit"):
            probes["rsl_negotiated"] = 1
        if ver == (3, 4):
            probes["tls13"] = 1
        if sc.get("hrr"):
            probes["hrr"] = 1
        if ver == (3, 0):
            probes["sslv3"] = 1
        if suite.kind == "null":
            probes["null_cipher"] = 1
        if suite.kind == "cbc" and ver < (3, 4) and \
                pair.c.conn.session.encryptThenMAC:
            probes["etm"] = 1
        for w in "cs":
            for o in eps[w].history[1:]:
                if o.desc[0] == "read" and o.kind == "ok" and \
                        o.desc[1] is not None and len(o.value) == o.desc[1]:
                    probes["read_max_lt_buffered"] = 1
    key = hashlib.sha256(json.dumps([sc, script, ch.streams()],
                                    sort_keys=True).encode()).hexdigest()
    h = hashlib.sha256()
    h.update(bytes(pair.link.c2s.wire_log))
    h.update(bytes(pair.link.s2c.wire_log))
    h.update(ch.digest().encode())
    h.update(json.dumps([x["sig"] for x in viol]).encode())
    return {"violations": viol, "nontrivial": done_hs and delivered > 0,
            "key": key, "digest": h.hexdigest(),
            "faults": dict(sim.stats), "probes": probes, "steps": sim.steps,
            "order": sim.order.hexdigest(),
            "states": ["%s/%s/%s" % (sc["suite"], sc["version"],
                                     sc["cset"].get("useEncryptThenMAC"))],
            "streams": ch.streams(), "inconclusive": st == "cap",
            "sample": {"scenario": sc, "script": script}}
