"""C02 - a record is accepted only if it is exactly what the peer sent next."""

import hashlib
import json

from sim import kernel
kernel.boot()
from sim import nodes, scen, script as sim_script, taps, mitm  # noqa: E402

ID = "C02"
LEVEL = "exploration"
RULE = ("job = seed (+ optional (suite, version, EtM) grid cell) -> handshake, "
        "short data exchange in both directions (TLS 1.3: optional KeyUpdate "
        "so two key epochs exist), one wire-tampering fault aimed at a "
        "protected record (bitflip at a drawn position, truncate, extend, "
        "drop, dup, swap, replay of an older record, reflection from the "
        "other direction, cross-epoch replay, unprotected record injection, "
        "header type/version/length rewrite).  Oracle: receiver's accepted "
        "(type, plaintext) sequence is a prefix of the sender's protected "
        "sequence; first forged record => TLSLocalAlert with a fatal "
        "integrity/decoding alert that was really sent, no forged data "
        "delivered, connection closed, session not resumable. distinct = "
        "digest(scenario, tamper); non-trivial = the tamper fired on a "
        "protected record and the receiver processed it"
        ' Family hs_epoch (every cell): forgeries aimed at the first PROTECTED record of the handshake in one direction (foreign application_data-typed record in front, bit flip, truncated copy, reflection) => the receiver aborts the handshake with a fatal integrity/decoding alert.  byz_inner: a key-holding peer emits all-zero / empty inner plaintexts and a protected change_cipher_spec.'
        ' After a rejected record the application reads once more: only honest, already decrypted bytes may come out.  Families inject_mid (unprotected record in the middle of a key epoch, every cell) and ku_replay (TLS 1.3: first record of the previous key epoch replayed right after a KeyUpdate).'
        " The receiver's transport may fail (timeout / EPIPE / reset) exactly while it writes its fatal alert: the rejection must still close the connection; protected CCS also with record padding.")
LEVEL_TEXT = ("Seeded fault search: one wire fault per run, aimed with a "
              "fault-free dry run of the same seed so it lands inside "
              "protected traffic; every (suite, version, EtM) cell is hit in "
              "the quick tier and bit positions are stratified over header, "
              "first/last bytes and the middle of the record.  Sampling over "
              "positions/lengths, not enumeration.")
LEVEL_NOTE = ("Trusted: simulator, record-aware MITM, send/recv taps on the "
              "RecordLayer instances.  SSLv3 header version bytes are not "
              "covered by the SSLv3 MAC by protocol design and are excluded "
              "from bit flips.  TLS 1.3 inner-plaintext forgeries need the "
              "traffic keys and are produced by a byzantine sender.")
BUDGET = {"quick": 300, "thorough": 1200}
CHUNK = 8
KINDS = ["bitflip", "truncate", "extend", "drop", "dup", "swap", "replay_old",
         "reflect", "inject_plain", "hdr_type", "hdr_version", "hdr_length",
         "cross_epoch", "extend_front", "byz_inner"]
WEIGHTED = ["bitflip"] * 6 + KINDS
PROBES = KINDS + ["tls13_keyupdate_epoch", "etm", "aead", "stream", "null",
                  "read_after_rejection", "hs_epoch", "hs_epoch_inject", "hs_epoch_bitflip",
                  "hs_epoch_truncated_copy", "hs_epoch_reflect"]
COMPONENTS_REAL = ["tlslite record layer (protect/unprotect paths of every "
                   "suite class), TLSRecordLayer._getMsg error mapping"]
COMPONENTS_STUB = ["socket", "os.urandom", "clock", "network (hostile wire)"]
ASSUMPTIONS = ["attacker does not know traffic keys (wire tampering only) "
               "except in the byz_inner kind where the peer itself misbehaves"]

ALLOWED = {20: "bad_record_mac", 21: "decryption_failed",
           22: "record_overflow", 50: "decode_error",
           10: "unexpected_message", 47: "illegal_parameter"}


def grid():
    cells = []
    for ver in [(3, 0), (3, 1), (3, 2), (3, 3), (3, 4)]:
        for sid in scen.negotiable(ver):
            s = scen.all_suites()[sid]
            etms = [True, False] if (s.kind == "cbc" and ver < (3, 4)) \
                else [True]
            for etm in etms:
                cells.append([sid, list(ver), etm])
    return cells


def plan(tier, base_seed):
    jobs = []
    cells = grid()
    reps = {"quick": 2, "thorough": 40}[tier]
    i = 0
    for r in range(reps):
        for c in cells:
            jobs.append({"seed": base_seed * 1000003 + i, "cell": c})
            i += 1
    n = {"quick": 300, "thorough": 400000}[tier]
    for k in range(n):
        jobs.append({"seed": base_seed * 1000003 + 500000 + k})
    # an unprotected record (alert / CCS / data / handshake) in the middle
    # of the protected stream, every cell
    for c in cells:
        for rep in range(4 if tuple(c[1]) == (3, 4) else 1):
            jobs.append({"seed": base_seed * 1000003 + 600000 + i, "cell": c,
                         "fam": "inject_mid"})
            i += 1
    # TLS 1.3 cells: first record of the previous key epoch replayed right
    # after a KeyUpdate
    for c in cells:
        if tuple(c[1]) == (3, 4):
            for rep in range(6):
                jobs.append({"seed": base_seed * 1000003 + 650000 + i,
                             "cell": c, "fam": "ku_replay"})
                i += 1
    # forgeries inside the protected part of the handshake, every cell
    for r in range({"quick": 1, "thorough": 20}[tier]):
        for c in cells:
            jobs.append({"seed": base_seed * 1000003 + 700000 + i, "cell": c,
                         "fam": "hs_epoch"})
            i += 1
    for j in jobs[:3]:
        j["keep"] = True
    return jobs


def build(seed, sc, chooser, tampers):
    sim = nodes.new_run(seed, chooser=chooser, max_steps=100000,
                        sched="first")
    pair = nodes.Pair(sim, sc, policy="ideal")
    m = mitm.RecordMitm(pair.link, tampers, sim.stats)
    tp = {"c": (taps.SendTap(pair.c.conn), taps.RecvTap(pair.c.conn),
                taps.MsgTap(pair.c.conn)),
          "s": (taps.SendTap(pair.s.conn), taps.RecvTap(pair.s.conn),
                taps.MsgTap(pair.s.conn))}
    for w in "cs":
        tp[w][0].keep_plain = True
    return sim, pair, m, tp


def run_hs_epoch(job, ch, seed, sc, suite, ver, etm, dirn, S, R, m0, hs_n):
    """Forgeries aimed at the first PROTECTED record of the handshake in one
    direction (TLS 1.3: first record under handshake keys; <= 1.2: the
    Finished right after ChangeCipherSpec): foreign application_data-typed
    record in front of it, bit flip, truncated copy in front, record
    reflected from the other direction.  The receiver must abort the
    handshake with a fatal integrity / decoding alert."""
    from tlslite.errors import TLSLocalAlert
    lay = m0.seen[dirn]
    n = hs_n[dirn]
    if ver == (3, 4):
        prot = [i for i in range(n) if lay[i][0] == 23]
    else:
        ccs = [i for i in range(n) if lay[i][0] == 20]
        prot = [ccs[0] + 1] if ccs and ccs[0] + 1 < n else []
    viol = []
    probes = {"hs_epoch": 1}
    if not prot:
        return {"violations": [], "nontrivial": False, "key": "hs-none",
                "digest": "hs-none", "faults": {}, "probes": probes,
                "steps": 0, "order": "", "states": [],
                "streams": ch.streams(), "inconclusive": False,
                "sample": {"scenario": sc}}
    tgt = prot[0]
    k = ch.draw(4, "h.kind")
    other = "s2c" if dirn == "c2s" else "c2s"
    if k == 0:
        nb = 17 + ch.draw(60, "h.len")
        body = bytes((7 * i + 3 * nb + seed) & 0xff for i in range(nb))
        t = {"kind": "inject_plain", "type": 23, "body": body.hex(),
             "ver": list(lay[tgt][1])}
        detail = "hs_epoch_inject"
    elif k == 1:
        t = {"kind": "bitflip", "pos": 5 + ch.draw(len(lay[tgt][2]),
                                                  "h.pos"), "mask": 1}
        detail = "hs_epoch_bitflip"
    elif k == 2:
        b = lay[tgt][2]
        t = {"kind": "inject_plain", "type": lay[tgt][0],
             "body": bytes(b[:max(1, len(b) - 1 - ch.draw(8, "h.cut"))]).hex(),
             "ver": list(lay[tgt][1])}
        detail = "hs_epoch_truncated_copy"
    else:
        src = [i for i in range(hs_n[other])
               if m0.seen[other][i][0] == lay[tgt][0] and
               (ver == (3, 4) or i > 0)]
        if not src:
            src = [hs_n[other] - 1]
        t = {"kind": "reflect", "src": src[-1]}
        detail = "hs_epoch_reflect"
    detail += "|tls13" if ver == (3, 4) else "|legacy"
    t["dir"] = dirn
    t["idx"] = tgt
    sim, pair, m, tp = build(seed, sc, ch, [t])
    oc, os_, st = pair.handshake()

    def v(rule, sig, msg):
        viol.append({"rule": rule, "sig": sig, "msg":
                     "%s [tamper=%s suite=%s ver=%s etm=%s dir=%s]" %
                     (msg, json.dumps(t, sort_keys=True), suite.name, ver,
                      etm, dirn)})
    ro = oc if R == "c" else os_
    rx = pair.c if R == "c" else pair.s
    fired = bool(m.fired)
    if fired:
        probes[detail.split("|")[0]] = 1
        if oc.kind == "ok" and os_.kind == "ok":
            v("not_rejected", "%s|handshake_completed" % detail,
              "a forged record inside the protected part of the handshake "
              "was tolerated: both handshakes completed")
        elif ro.kind == "ok" or st == "stuck" or ro.kind == "pending":
            v("not_rejected", "%s|receiver_waits" % detail,
              "the receiver did not abort after a forged record in the "
              "protected part of the handshake (status %s, receiver %s)" %
              (st, ro.kind))
        elif ro.kind == "exc":
            e = ro.exc
            if not isinstance(e, TLSLocalAlert):
                v("wrong_error", "%s|%s" % (detail, type(e).__name__),
                  "forged handshake-epoch record surfaced as %r instead of "
                  "a local fatal alert" % (e,))
            elif e.description not in ALLOWED or e.level != 2:
                v("wrong_alert", "%s|%s" % (detail, e.description),
                  "alert %s level %s is not a fatal integrity/decoding "
                  "alert" % (e.description, e.level))
            if not rx.conn.closed:
                v("not_closed", detail, "connection open after the forged "
                  "record")
    key = hashlib.sha256(json.dumps([sc, t, "hs"], sort_keys=True)
                         .encode()).hexdigest()
    h = hashlib.sha256()
    h.update(bytes(pair.link.c2s.wire_log))
    h.update(bytes(pair.link.s2c.wire_log))
    h.update(json.dumps([x["sig"] for x in viol]).encode())
    return {"violations": viol, "nontrivial": fired, "key": key,
            "digest": h.hexdigest(), "faults": dict(sim.stats),
            "probes": probes, "steps": sim.steps, "order": "",
            "states": ["hs_epoch/%s" % detail],
            "streams": ch.streams(), "inconclusive": False,
            "sample": {"scenario": sc, "tamper": t}}


def app_script(S, R, sizes, ku_at, pre):
    out = []
    off = 0
    for n in pre:
        out.append([R, "write", off, n])
        off += n
    if pre:
        out.append([S, "read", None, sum(pre)])
    off = 0
    for i, n in enumerate(sizes):
        if ku_at is not None and i == ku_at:
            out.append([S, "keyupdate"])
        out.append([S, "write", off, n])
        off += n
    out.append([R, "read", None, sum(sizes)])
    return out


def op_gen_factory(byz):
    def op_gen(ep, op):
        conn = ep.conn
        if op[1] == "write":
            data = scen.payload(1 if ep.name == "c" else 2, op[2], op[3])
            return lambda: conn.writeAsync(data)
        if op[1] == "read":
            return lambda: conn.readAsync(op[2], op[3])
        if op[1] == "keyupdate":
            from tlslite.constants import KeyUpdateMessageType
            return lambda: conn.send_keyupdate_request(
                KeyUpdateMessageType.update_not_requested)
        if op[1] == "byz_inner":
            # sender with the keys emits a record whose inner plaintext is
            # all zeros (no content type); size -1 = a truly EMPTY inner
            # plaintext (ciphertext is just the AEAD tag)
            from tlslite.messages import Message
            rl = conn._recordLayer
            if op[2] in (-2, -3):
                # a PROTECTED change_cipher_spec (RFC 8446 section 5: MUST be
                # refused with unexpected_message)
                def prot_ccs():
                    body = rl._encryptThenSeal(
                        bytearray([1, 20]) +
                        bytearray(0 if op[2] == -2 else 5), 23)
                    for r in rl._recordSocket.send(Message(23, body)):
                        yield r
                return prot_ccs
            if op[2] < 0:
                def empty():
                    body = rl._encryptThenSeal(bytearray(0), 23)
                    for r in rl._recordSocket.send(Message(23, body)):
                        yield r
                return empty
            return lambda: rl.sendRecord(Message(0, bytearray(op[2])))
        raise ValueError(op)
    return op_gen


def run(job, streams=None):
    seed = job["seed"]
    ch = kernel.Chooser(seed=seed) if streams is None else \
        kernel.Chooser(streams=streams)
    cell = job.get("cell")
    if cell is None:
        ver = scen.VERSIONS[ch.draw(len(scen.VERSIONS), "cfg.ver")]
        pool = scen.negotiable(ver)
        sid = pool[ch.draw(len(pool), "cfg.suite")]
        etm = not ch.draw(2, "cfg.etm")
    else:
        sid, ver, etm = cell[0], tuple(cell[1]), cell[2]
    sc = scen.suite_scenario(sid, ver, etm)
    suite = scen.all_suites()[sid]
    S = "cs"[ch.draw(2, "cfg.dir")]
    R = "s" if S == "c" else "c"
    dirn = "c2s" if S == "c" else "s2c"
    nrec = 3 + ch.draw(3, "cfg.nrec")
    sizes = [1 + ch.draw(200, "cfg.size") for _ in range(nrec)]
    if ch.draw(4, "cfg.big") == 1:
        sizes[ch.draw(nrec, "cfg.bigidx")] = 16384 if suite.cipher != "3des" \
            else 2000
    pre = [1 + ch.draw(60, "cfg.pre") for _ in range(1 + ch.draw(2, "cfg.npre"))]
    ku_at = None
    if ver == (3, 4) and (ch.draw(2, "cfg.ku") or
                          job.get("fam") == "ku_replay"):
        ku_at = 1 + ch.draw(nrec - 1, "cfg.kuat")
    script = app_script(S, R, sizes, ku_at, pre)

    # ---- dry run: learn the record layout
    sim0, pair0, m0, tp0 = build(seed, sc, kernel.Chooser(streams={}), [])
    oc, os_, st = pair0.handshake()
    if not (oc.kind == "ok" and os_.kind == "ok" and st == "idle"):
        raise RuntimeError("dry-run handshake failed: %r %r %s" %
                           (oc.exc, os_.exc, st))
    hs_n = {d: len(m0.seen[d]) for d in ("c2s", "s2c")}
    if job.get("fam") == "hs_epoch" or (job.get("fam") is None and
                                        ch.draw(8, "cfg.hsepoch") == 1):
        return run_hs_epoch(job, ch, seed, sc, suite, ver, etm, dirn, S, R,
                            m0, hs_n)
    eps0 = {"c": pair0.c, "s": pair0.s}
    st0 = sim_script.run_script(sim0, eps0, script, op_gen_factory(None))
    if st0 != "idle" or any(o.kind != "ok" for w in "cs"
                            for o in eps0[w].history):
        raise RuntimeError("dry-run script failed: %s %r" % (
            st0, [(o.desc, o.exc) for w in "cs" for o in eps0[w].history
                  if o.kind != "ok"]))
    lay = m0.seen[dirn]
    app_idx = list(range(hs_n[dirn], len(lay)))
    other = "s2c" if dirn == "c2s" else "c2s"

    # ---- draw the tamper
    kind = WEIGHTED[ch.draw(len(WEIGHTED), "t.kind")]
    if job.get("fam") == "inject_mid":
        kind = "inject_plain"
    if job.get("fam") == "ku_replay":
        kind = "cross_epoch"
    t = {"dir": dirn, "kind": kind}
    # never the last record: an honest record must follow so that the
    # receiver is still reading when the forgery arrives
    tgt = app_idx[ch.draw(len(app_idx) - 1, "t.idx")]
    if job.get("fam") == "inject_mid" and len(app_idx) > 2:
        # an unprotected record in the MIDDLE of a key epoch
        tgt = app_idx[1 + ch.draw(len(app_idx) - 2, "t.idx")]
    body_len = len(lay[tgt][2])
    need_follow = False
    extra_ops = None
    if kind == "bitflip":
        zone = ch.draw(5, "t.zone")
        tot = 5 + body_len
        if zone == 0:
            pos = 5 + ch.draw(body_len, "t.pos") if body_len else 0
        elif zone == 1:
            pos = ch.draw(5, "t.pos")
        elif zone == 2:
            pos = 5 + ch.draw(min(64, body_len), "t.pos")
        elif zone == 3:
            pos = tot - 1 - ch.draw(min(64, body_len), "t.pos")
        else:
            pos = ch.draw(tot, "t.pos")
        t["pos"] = pos
        if pos in (1, 2):
            kind = "hdr_version"     # same fault class: version field
        t["mask"] = [1, 0x80, 0xff, 0x10][ch.draw(4, "t.mask")]
        if pos in (3, 4):
            need_follow = True
    elif kind in ("truncate", "extend", "extend_front"):
        t["n"] = 1 + ch.draw(max(1, (suite.block or 16) + 1), "t.n")
        if kind == "truncate" and t["n"] >= body_len and body_len > 1:
            t["n"] = body_len - 1
    elif kind in ("drop", "swap"):
        if tgt == app_idx[-1]:
            tgt = app_idx[0]
        need_follow = True
    elif kind == "dup":
        pass
    elif kind == "replay_old":
        cands = [i for i in app_idx if i < tgt] or [hs_n[dirn] - 1]
        t["src"] = cands[ch.draw(len(cands), "t.src")]
        if t["src"] < 0:
            t["src"] = 0
    elif kind == "cross_epoch":
        # a protected record from an earlier key epoch (handshake-phase
        # protected record, or pre-KeyUpdate record) replayed into the
        # current epoch
        t["kind"] = "replay_old_before" if ch.draw(2, "t.before") else \
            "replay_old"
        cands = [i for i in range(len(lay)) if i < tgt and
                 (lay[i][0] == 23 or i >= 1) and i < hs_n[dirn]]
        cands = cands[-3:] or [0]
        t["src"] = cands[ch.draw(len(cands), "t.src")]
        ku_rec = [i for i, r in enumerate(tp0[S][0].records)
                  if i >= hs_n[dirn] and r[0] == 22]
        if ku_rec and ku_rec[0] + 1 < len(lay) - 1 and \
                (ch.draw(2, "t.kuepoch") == 1 or
                 job.get("fam") == "ku_replay"):
            # the first record of the PREVIOUS application-key epoch (its
            # sequence number is 0) replayed as the first record after the
            # KeyUpdate: a receiver whose new keys lag by one generation
            # would take it
            first_app = [i for i, r in enumerate(tp0[S][0].records)
                         if (r[0] == 23) or (r[0] == 22 and r[4][:1] ==
                                             b"\x04")]
            if first_app:
                t["kind"] = "replay_old_before"
                t["src"] = first_app[0]
                tgt = ku_rec[0] + 1
    elif kind == "reflect":
        osrc = list(range(hs_n[other], len(m0.seen[other]))) or [0]
        t["src"] = osrc[ch.draw(len(osrc), "t.src")]
    elif kind == "inject_plain":
        opts = [(21, "0100"), (21, "0200"), (21, "0214"), (20, "01"),
                (23, "68656c6c6f"), (22, "00000000"), (24, "010000"),
                (21, "01"), (23, ""), (99, "00")]
        ty, body = opts[ch.draw(len(opts), "t.plain")]
        t["type"] = ty
        t["body"] = body
        t["ver"] = list(lay[tgt][1])
    elif kind == "hdr_type":
        t["type"] = [21, 22, 20, 24, 23, 0, 255][ch.draw(7, "t.type")]
        if t["type"] == lay[tgt][0]:
            t["type"] = 21 if lay[tgt][0] != 21 else 22
    elif kind == "hdr_version":
        cur = list(lay[tgt][1])
        alts = [v for v in ([3, 0], [3, 1], [3, 2], [3, 3], [3, 4], [2, 0],
                            [255, 255]) if v != cur]
        t["ver"] = alts[ch.draw(len(alts), "t.ver")]
    elif kind == "hdr_length":
        t["delta"] = [1, -1, 16, -16, 20000][ch.draw(5, "t.delta")]
        if t["delta"] < 0 and body_len + t["delta"] < 0:
            t["delta"] = -body_len
        need_follow = True
    elif kind == "byz_inner":
        if ver != (3, 4):
            kind = "bitflip"
            t["kind"] = "bitflip"
            t["pos"] = 5 + ch.draw(max(1, body_len), "t.pos")
            t["mask"] = 1
        else:
            # executed by the sender itself after its first record
            extra_ops = [S, "byz_inner", [0, -1, 1, 5, 64, -1, -2, -3][
                ch.draw(8, "t.zeros")]]
            t = None
    if t is not None:
        t["idx"] = tgt
    # first record of a key epoch in this direction? (read seqnum == 0)
    # (also the first record after a KeyUpdate of that direction)
    ku_idx = [i for i, r in enumerate(tp0[S][0].records)
              if i >= hs_n[dirn] and r[0] == 22]

    def is_epoch_start(i):
        return i == hs_n[dirn] or (i - 1) in ku_idx
    epoch_start = is_epoch_start(tgt)
    detail = kind
    if kind == "inject_plain":
        detail += ":%d:%d" % (t["type"], len(t["body"]) // 2)
    detail += "|tls13" if ver == (3, 4) else "|legacy"
    if need_follow and tgt == app_idx[-1] and len(app_idx) > 1:
        tgt = app_idx[-2]
        t["idx"] = tgt
        epoch_start = is_epoch_start(tgt)
    if epoch_start:
        detail += "|epoch_start"

    script2 = list(script)
    if extra_ops is not None:
        # insert after the sender's first write
        k = [i for i, o in enumerate(script2)
             if o[0] == S and o[1] == "write"][0]
        script2.insert(k + 1, extra_ops)

    # ---- tampered run
    sim, pair, m, tp = build(seed, sc, ch, [t] if t else [])
    oc, os_, st = pair.handshake()
    viol = []

    def v(rule, sig, msg):
        viol.append({"rule": rule, "sig": sig, "msg":
                     "%s [tamper=%s suite=%s ver=%s etm=%s dir=%s]" %
                     (msg, json.dumps(t or extra_ops, sort_keys=True),
                      suite.name, ver, etm, dirn)})

    if not (oc.kind == "ok" and os_.kind == "ok"):
        raise RuntimeError("handshake diverged from dry run")
    eps = {"c": pair.c, "s": pair.s}
    res_before = {w: eps[w].conn.session.resumable for w in "cs"}
    # the transport of the receiver may fail exactly while it writes its
    # fatal alert (stall / peer gone): rejection must still close
    awf = [None, None, "timeout", "reset", "epipe", None][
        ch.draw(6, "cfg.awf")]
    awf_tap = taps.AlertWriteFault(eps[R].conn, eps[R].sock, awf) \
        if awf else None
    st = sim_script.run_script(sim, eps, script2, op_gen_factory(None))
    fired = bool(m.fired) or extra_ops is not None
    rx = eps[R]
    # the application reads once more after a failed read: whatever is still
    # in the transport (honest ciphertext, forged bytes) must not come out
    again = None
    rd_ = [o for o in rx.history if o.desc[0] == "read"]
    if rd_ and rd_[-1].kind == "exc" and rx.op is None:
        again = rx.start(("read_again", None, 1),
                         lambda: rx.conn.readAsync(None, 1))
        sim.run()
    sendtap = tp[S][0]
    recvtap = tp[R][1]
    msgtap = tp[R][2]

    # 1. accepted sequence is a prefix of the protected sequence
    sent = [(r[0], r[4]) for r in sendtap.records]
    acc = list(recvtap.accepted)
    if ver == (3, 4):
        sent = [x for x in sent if x[0] != 20]
        acc = [x for x in acc if x[0] != 20]
    if extra_ops is not None:
        # the byzantine record is, by definition, not an honest record
        sent = [x for x in sent if x[0] != 0]
    n_ok = 0
    for a, b in zip(acc, sent):
        if a[0] != b[0] or bytes(a[1]) != bytes(b[1]):
            break
        n_ok += 1
    if n_ok < len(acc):
        a = acc[n_ok]
        v("accepted_forgery", "%s|type%d" % (detail, a[0]),
          "receiver accepted record #%d (type %d, %d bytes) that is not the "
          "next record the peer protected" % (n_ok, a[0], len(a[1])))
    # 2. behaviour of the receiving call
    rd = [o for o in rx.history if o.desc[0] == "read"]
    last = rd[-1] if rd else None
    exc = last.exc if last is not None and last.kind == "exc" else None
    processed = False
    if fired and last is not None:
        if last.kind == "pending" or st == "stuck":
            pass        # forged framing left the receiver waiting for bytes
        elif last.kind == "ok" and (
                len(pair.link.pipes()[0 if dirn == "c2s" else 1].buf) or
                len(rx.conn.sock._read_buffer)):
            pass        # forged bytes never consumed by the receiver
        elif last.kind == "ok":
            want = scen.payload(1 if S == "c" else 2, 0, sum(sizes))
            if bytes(last.value) == want and n_ok == len(acc) and \
                    len(acc) >= len(sent) - 0:
                # everything honest arrived and nothing else was accepted:
                # the fault was discarded before the record layer (e.g.
                # injected after the last read) - nothing to judge
                if not viol:
                    v("not_rejected", "%s|silently_ignored" % detail,
                      "tampered traffic was not rejected: read returned all "
                      "honest data and the connection stayed open")
            else:
                v("not_rejected", "%s|read_ok" % detail,
                  "read returned %d bytes (wanted %d) without raising after "
                  "a forged record" % (len(last.value), len(want)))
            processed = True
        else:
            processed = True
            from tlslite.errors import TLSLocalAlert
            if awf_tap is not None and awf_tap.fired and \
                    isinstance(exc, OSError):
                pass    # the alert could not be written: transport error
            elif not isinstance(exc, TLSLocalAlert):
                v("wrong_error", "%s|%s" % (detail, type(exc).__name__),
                  "forged record surfaced as %r instead of a local fatal "
                  "alert" % (exc,))
            else:
                if exc.description not in ALLOWED or exc.level != 2:
                    v("wrong_alert", "%s|%s" % (detail, exc.description),
                      "alert description %s level %s is not a fatal "
                      "integrity/decoding alert" % (exc.description,
                                                    exc.level))
                fa = msgtap.fatal_alerts()
                if not fa or fa[-1]["description"] != exc.description:
                    v("alert_not_sent", detail,
                      "no matching fatal alert was sent before raising %r"
                      % (exc,))
            if not rx.conn.closed:
                v("not_closed", detail, "connection still open after forged "
                  "record")
            if rx.conn.session is not None and rx.conn.session.resumable:
                v("still_resumable", detail, "session left resumable after a "
                  "forged record")
    # data delivered by every successful read must be honest data
    pos = 0
    want_all = scen.payload(1 if S == "c" else 2, 0, sum(sizes))
    for o in rd:
        if o.kind == "ok":
            d = bytes(o.value)
            if want_all[pos:pos + len(d)] != d:
                v("forged_data", detail, "read returned bytes the peer never "
                  "wrote")
            pos += len(d)
    if again is not None and again.kind == "ok" and again.value:
        # honest bytes that were already decrypted before the forgery may
        # still be handed out; anything else must not
        d = bytes(again.value)
        if want_all[pos:pos + len(d)] != d:
            v("data_after_rejection", detail,
              "a read() after the rejected record returned %d bytes the "
              "peer never wrote at that position (%s...)" %
              (len(d), d[:8].hex()))
    probes = {}
    if again is not None:
        probes["read_after_rejection"] = 1
    if awf_tap is not None and awf_tap.fired:
        probes["alert_write_" + awf] = 1
    if fired:
        probes[kind] = 1
    if ku_at is not None:
        probes["tls13_keyupdate_epoch"] = 1
    probes[{"cbc": "etm" if etm else "mte", "aead": "aead",
            "stream": "stream", "null": "null"}[suite.kind]] = 1
    key = hashlib.sha256(json.dumps([sc, script2, t, S],
                                    sort_keys=True).encode()).hexdigest()
    h = hashlib.sha256()
    h.update(bytes(pair.link.c2s.wire_log))
    h.update(bytes(pair.link.s2c.wire_log))
    h.update(json.dumps([x["sig"] for x in viol]).encode())
    h.update(repr([o.sig() for w in "cs" for o in eps[w].history]).encode())
    return {"violations": viol, "nontrivial": fired and processed,
            "key": key, "digest": h.hexdigest(),
            "faults": dict(sim.stats), "probes": probes,
            "steps": sim.steps + sim0.steps, "order": "",
            "states": ["%s/%s/%s/%s" % (sid, ver, etm, kind)],
            "streams": ch.streams(), "inconclusive": st == "stuck",
            "sample": {"scenario": sc, "script": script2, "tamper": t}}
