"""C20 - negotiated cipher-suite semantics match the suite's registered
meaning (full grid: suite x version x role, live handshakes)."""

import hashlib
import json

from sim import kernel
kernel.boot()
from sim import nodes, scen, script as sim_script, taps, net  # noqa: E402
from sim import byz                                           # noqa: E402
from model import prf as mprf                                 # noqa: E402

ID = "C20"
LEVEL = "exploration"
RULE = ("grid = every suite id in CipherSuite.ietfNames x versions SSLv3.."
        "TLS1.3 x case in {pos (honest, forced suite, EtM on/off for CBC), "
        "wrongkey (server credential of another key type), byz_client "
        "(client whose version filter is disabled offers the suite), "
        "byz_server (server whose version filter is disabled selects it)}; "
        "oracle from model/suites.py (independent parse of the IANA name) "
        "and model/prf.py (stdlib hmac).  distinct = grid cell; non-trivial "
        "= pos cells that completed and had every sub-oracle evaluated, "
        "negative cells that produced a definite refusal"
        " Extra cases: resume_other (TLS 1.3 session of suite A offered where only suite B can be negotiated: a PSK of another hash must not be accepted) and dualcert (RSA+ECDSA server via virtual_hosts x client signature-algorithm / suite restrictions: key type of the certificate on the wire == the suite's)."
        ' odd_dh: master secret recomputed (model/prf.py) from the tapped premaster secret of a DHE handshake over a 1032-bit safe prime (odd-length secret, RFC 2246 s5).'
        ' resume_other: after the second handshake session accessors must name the negotiated suite on both ends and data must flow after a KeyUpdate in each direction.  dualcert also with single-certificate servers of every key type (RSA, RSA-PSS, ECDSA P-256/P-384, Ed25519, Ed448, DSA) x client restrictions.')
LEVEL_TEXT = ("Exhaustive over the (suite, version, case) grid in both tiers "
              "(each cell is one deterministic simulated handshake plus a "
              "short data exchange); the thorough tier repeats the grid under "
              "other seeds and transport schedules.  What is checked per "
              "cell: ServerKeyExchange presence, key type acceptance, record "
              "expansion, cipher/MAC objects in the record layer, key/IV "
              "(AEAD) and MAC (EtM, NULL, RC4-less) re-derivation with an "
              "independent PRF, exporter and Finished verify_data "
              "recomputation, accessor names, version filter of both roles.")
LEVEL_NOTE = ("Trusted: model/suites.py and model/prf.py (written from the "
              "RFCs, share no tables with tlslite).  Bulk cipher "
              "*algorithms* are not re-implemented here: AES/ChaCha "
              "correctness against an independent implementation is C07 "
              "(OpenSSL).  ECC suites in SSLv3 are accepted (library and "
              "OpenSSL latitude).")
BUDGET = {"quick": 300, "thorough": 1500}
CHUNK = 8
PROBES = ["pos", "wrongkey", "byz_client", "byz_server", "aead_keys_checked",
          "mac_checked", "finished_checked", "exporter_checked",
          "expansion_checked", "split_1n1", "keyupdate_keys_checked",
          "resume_other", "resume_same_hash", "resume_other_hash",
          "keyupdate_after_second",
          "dualcert", "dual_rsa", "dual_ecdsa", "odd_dh", "dual_ed25519",
          "dual_ed448", "dual_dsa", "dual_rsapss",
          "premaster_odd", "premaster_even"]
COMPONENTS_REAL = ["tlslite handshake + record layer + constants tables"]
COMPONENTS_STUB = ["socket", "os.urandom", "clock",
                   "byzantine peer = real TLSConnection with "
                   "CipherSuite.filterForVersion disabled for that node only"]
ASSUMPTIONS = ["CBC padding is minimal (tlslite's sender) for the expansion "
               "check"]

VERS = [(3, 0), (3, 1), (3, 2), (3, 3), (3, 4)]
HRR_RANDOM = bytes.fromhex("cf21ad74e59a6111be1d8c021e65b891"
                           "c2a211167abb8c5e079e09e2c8a8339c")


def EXHAUSTIVE(tier):
    return True


def plan(tier, base_seed):
    jobs = []
    S = scen.all_suites()
    reps = {"quick": 1, "thorough": 6}[tier]
    for rep in range(reps):
        seed0 = base_seed * 1000003 + rep * 100000
        i = 0
        for sid in sorted(S):
            s = S[sid]
            fl = scen.suite_flavour(s)
            for ver in VERS:
                if fl is not None and sid not in scen.NOT_OFFERED and \
                        s.defined_in(ver):
                    etms = [True, False] if s.kind == "cbc" else [True]
                    for etm in etms:
                        jobs.append({"seed": seed0 + i, "sid": sid,
                                     "ver": list(ver), "case": "pos",
                                     "etm": etm, "rep": rep})
                        i += 1
                    if s.auth in ("rsa", "ecdsa", "dsa") and not s.tls13 \
                            and s.kx != "srp":
                        jobs.append({"seed": seed0 + i, "sid": sid,
                                     "ver": list(ver), "case": "wrongkey",
                                     "rep": rep})
                        i += 1
                elif fl is not None and sid not in scen.NOT_OFFERED:
                    for case in ("byz_client", "byz_server"):
                        jobs.append({"seed": seed0 + i, "sid": sid,
                                     "ver": list(ver), "case": case,
                                     "rep": rep})
                        i += 1
        # TLS 1.3: a session established under suite A is offered to a
        # handshake that can only negotiate suite B
        t13 = sorted(k for k in S if S[k].tls13 and
                     k not in scen.NOT_OFFERED)
        for a in t13:
            for b in t13:
                if a != b:
                    jobs.append({"seed": seed0 + i, "sid": a, "sid2": b,
                                 "ver": [3, 4], "case": "resume_other",
                                 "rep": rep})
                    i += 1
        # key derivation from a premaster secret of ODD length (RFC 2246 s5:
        # the two halves of the secret share the middle octet): finite-field
        # DH over a 1032-bit safe prime, the master secret recomputed from
        # the tapped premaster secret with model/prf.py
        for ver in ([3, 1], [3, 2], [3, 3]):
            for role_ems in (0, 1):
                jobs.append({"seed": seed0 + i, "sid": 0x0033, "ver": ver,
                             "case": "odd_dh", "rep": rep, "ems": role_ems})
                i += 1
        # dual-certificate servers: the certificate sent must be of the key
        # type the negotiated suite's name denotes, whatever the client's
        # signature-algorithm / suite restrictions
        for ver in ([3, 3], [3, 1], [3, 4]):
            for prim, alt in (("rsa", "ecdsa"), ("ecdsa", "rsa")):
                for cl in DUAL_CLIENTS:
                    jobs.append({"seed": seed0 + i, "sid": 0, "ver": ver,
                                 "case": "dualcert", "rep": rep,
                                 "dual": [prim, alt, cl]})
                    i += 1
        # single-certificate servers of every key type x the same client
        # restrictions: a suite is only ever selected together with a
        # certificate of the key type its name denotes
        for prim in ("ed25519", "ed448", "dsa", "rsapss", "ecdsa", "rsa",
                     "ecdsa384"):
            for cl in DUAL_CLIENTS:
                jobs.append({"seed": seed0 + i, "sid": 0, "ver": [3, 3],
                             "case": "dualcert", "rep": rep,
                             "dual": [prim, None, cl]})
                i += 1
    for j in jobs[:3]:
        j["keep"] = True
    return jobs


ODD_P = 2 ** 1032 - 572057         # safe prime, 129 octets: Z is 129 octets too


def run_odd_dh(job, ch, seed, policy, v, viol, probes):
    import tlslite.tlsconnection as tc_mod
    ver = tuple(job["ver"])
    sc = scen.suite_scenario(0x0033, ver, True)
    for side in ("cset", "sset"):
        sc[side]["dhGroups"] = []
        sc[side]["useExtendedMasterSecret"] = False
    sc["sset"]["dhParams"] = [2, ODD_P]
    sim = nodes.new_run(seed, chooser=ch, max_steps=100000)
    pair = nodes.Pair(sim, sc, policy=policy, wb_budget=kernel.Budget(20),
                      delay_budget=kernel.Budget(20))
    calls = []
    orig = tc_mod.calc_key

    def tap(version, secret, cipher_suite, label, **kw):
        r = orig(version, secret, cipher_suite, label, **kw)
        if label == b"master secret":
            calls.append((bytes(secret), bytes(kw.get("client_random") or b""),
                          bytes(kw.get("server_random") or b""), bytes(r)))
        return r
    tc_mod.calc_key = tap
    try:
        oc, os_, st = pair.handshake()
    finally:
        tc_mod.calc_key = orig
    if not (oc.kind == "ok" and os_.kind == "ok"):
        v("handshake", "odd_dh", "DHE handshake over the 1032-bit group "
          "failed: %r %r" % (oc.exc, os_.exc))
        return _result(job, ch, sim, pair, viol, probes, False, "odd")
    for pm, cr, sr, ms in calls:
        probes["premaster_odd" if len(pm) % 2 else "premaster_even"] = 1
        want = mprf.prf(ver, "sha256", pm, b"master secret", cr + sr, 48)
        if want != ms:
            v("master_secret", "%s|len%d" % ("odd" if len(pm) % 2 else
                                             "even", len(pm) % 2),
              "master secret is not PRF(premaster[%d octets], 'master "
              "secret', client_random + server_random)" % len(pm))
    if not calls:
        v("master_secret", "untapped", "no master-secret derivation seen")
    for w, conn in (("c", pair.c.conn), ("s", pair.s.conn)):
        if calls and bytes(conn.session.masterSecret) != calls[-1][3]:
            v("master_secret", "session|" + w, "session.masterSecret "
              "differs from the derived value")
    return _result(job, ch, sim, pair, viol, probes, True, "odd")


DUAL_CLIENTS = {
    "default": {},
    "ecdsa_sigs_only": {"rsaSigHashes": [], "dsaSigHashes": [],
                        "rsaSchemes": ["pkcs1"]},
    "rsa_sigs_only": {"ecdsaSigHashes": [], "dsaSigHashes": [],
                      "more_sig_schemes": []},
    "ecdsa_suites_only": {"keyExchangeNames": ["ecdhe_ecdsa"]},
    "rsa_suites_only": {"keyExchangeNames": ["ecdhe_rsa", "dhe_rsa", "rsa"]},
}
OID_RSA = bytes.fromhex("06092a864886f70d010101")
OID_EC = bytes.fromhex("06072a8648ce3d0201")
OID_ED25519 = bytes.fromhex("06032b6570")
OID_ED448 = bytes.fromhex("06032b6571")
OID_DSA = bytes.fromhex("06072a8648ce380401")
OID_RSAPSS = bytes.fromhex("06092a864886f70d01010a")
# which end-entity key types an authentication family of a suite name admits
# (EdDSA certificates are used with the ECDHE_ECDSA suites, RFC 8422 5.10)
AUTH_KEYS = {"rsa": ("rsa", "rsapss"), "ecdsa": ("ecdsa", "ed25519", "ed448"),
             "dsa": ("dsa",)}


def ee_key_type(ee):
    for oid, name in ((OID_ED25519, "ed25519"), (OID_ED448, "ed448"),
                      (OID_DSA, "dsa"), (OID_EC, "ecdsa"),
                      (OID_RSA, "rsa"), (OID_RSAPSS, "rsapss")):
        if oid in ee:
            return name
    return "?"


def run_dualcert(job, ch, seed, policy, v, viol, probes):
    from sim import observe
    from tlslite.errors import TLSAlert
    S = scen.all_suites()
    prim, alt, cl = job["dual"]
    ver = tuple(job["ver"])
    sc = {"version": list(ver), "flavour": "cert", "skey": prim,
          "alt_skeys": [alt] if alt else [],
          "cset": dict({"minVersion": list(ver), "maxVersion": list(ver)},
                       **DUAL_CLIENTS[cl]),
          "sset": {"minVersion": list(ver), "maxVersion": list(ver)}}
    sim = nodes.new_run(seed, chooser=ch, max_steps=100000)
    try:
        pair = nodes.Pair(sim, sc, policy=policy,
                          wb_budget=kernel.Budget(20),
                          delay_budget=kernel.Budget(20))
    except ValueError as e:
        return _result(job, ch, sim, None, viol, probes, False,
                       "settings:%s" % e)
    tc, ts = taps.SendTap(pair.c.conn), taps.SendTap(pair.s.conn)
    tc.keep_plain = ts.keep_plain = True
    try:
        oc, os_, st = pair.handshake()
    except ValueError as e:
        return _result(job, ch, sim, pair, viol, probes, False,
                       "settings:%s" % e)
    obs = observe.observe(pair, tc, ts)
    both = oc.kind == "ok" and os_.kind == "ok"
    smsgs = hs_messages([r[4] for r in ts.records if r[0] == 22])
    certs = [m for m in smsgs if m[0] == 11]
    if "sh" in obs and certs and ver < (3, 4):
        sid = obs["sh"]["suite"]
        auth = S[sid].auth if sid in S else None
        # first certificate of the list
        body = certs[0][4:]
        ln = int.from_bytes(body[3:6], "big")
        ee = bytes(body[6:6 + ln])
        kt = ee_key_type(ee)
        probes["dual_" + kt] = 1
        if auth in AUTH_KEYS and kt not in AUTH_KEYS[auth]:
            v("wrong_key_type", "dualcert|%s|%s" % (auth, kt),
              "ServerHello selected %s (authentication: %s) but the "
              "certificate sent carries a %s key [server %s+%s, client %s, "
              "completed=%s]" % (S[sid].name, auth, kt, prim, alt, cl, both))
        for w, conn in (("c", pair.c.conn), ("s", pair.s.conn)):
            if conn.session is not None and both and \
                    conn.session.cipherSuite != sid:
                v("accessor", "dualcert|" + w, "%s session.cipherSuite %#x, "
                  "wire %#x" % (w, conn.session.cipherSuite, sid))
    for o in (oc, os_):
        if o.kind == "exc" and not isinstance(o.exc, (TLSAlert, OSError)):
            from sim.trace import where
            v("exception", "dualcert|%s|%s" % (type(o.exc).__name__,
                                               where(o.exc)),
              "handshake raised %r [server %s+%s, client %s, ver %s]" %
              (o.exc, prim, alt, cl, ver))
    if cl == "default" and not both and alt:
        v("handshake", "dualcert|default", "default client could not "
          "connect to a dual-certificate server: %r %r" % (oc.exc, os_.exc))
    return _result(job, ch, sim, pair, viol, probes, both, "dual")


def run_resume_other(job, ch, seed, policy, v, viol, probes):
    from sim import observe, script as sim_script
    S = scen.all_suites()
    a, b = job["sid"], job["sid2"]
    sc1 = scen.suite_scenario(a, (3, 4))
    sc1["sset"]["ticketKeys"] = ["55" * 32]
    sc1["sset"]["ticket_count"] = 1
    sim = nodes.new_run(seed, chooser=ch, max_steps=100000)
    pair = nodes.Pair(sim, sc1, policy=policy, wb_budget=kernel.Budget(20),
                      delay_budget=kernel.Budget(20))
    oc, os_, st = pair.handshake()
    if not (oc.kind == "ok" and os_.kind == "ok"):
        v("handshake", "first", "first handshake failed: %r %r" %
          (oc.exc, os_.exc))
        return _result(job, ch, sim, pair, viol, probes, False, "ro")
    sim_script.run_script(
        sim, {"c": pair.c, "s": pair.s},
        [["s", "w"], ["c", "r"], ["c", "close"], ["s", "r0"]],
        lambda ep, op: {
            "w": lambda: ep.conn.writeAsync(b"first"),
            "r": lambda: ep.conn.readAsync(None, 5),
            "r0": lambda: ep.conn.readAsync(None, 1),
            "close": lambda: ep.conn.closeAsync()}[op[1]])
    session = pair.c.conn.session
    if not session.tickets:
        v("handshake", "no_ticket", "no TLS 1.3 ticket was delivered")
    sim.links.remove(pair.link)
    sim.eps.remove(pair.c)
    sim.eps.remove(pair.s)
    sc2 = scen.suite_scenario(b, (3, 4))
    sc2["sset"]["ticketKeys"] = ["55" * 32]
    pair2 = nodes.Pair(sim, sc2, policy=policy, wb_budget=kernel.Budget(20),
                       delay_budget=kernel.Budget(20),
                       cnode=kernel.Node("c2", seed),
                       snode=kernel.Node("s2", seed))
    tc, ts = taps.SendTap(pair2.c.conn), taps.SendTap(pair2.s.conn)
    tc.keep_plain = ts.keep_plain = True
    try:
        oc, os_, st = pair2.handshake(session=session)
    except ValueError:
        # API-level refusal of the offered session
        return _result(job, ch, sim, pair2, viol, probes, True, "ro-api")
    obs = observe.observe(pair2, tc, ts)
    resumed = "sh" in obs and 41 in obs["sh"]["ext"]
    same = S[a].prf == S[b].prf
    probes["resume_same_hash" if same else "resume_other_hash"] = 1
    if resumed and not same:
        v("psk_hash", "%s->%s" % (S[a].prf, S[b].prf),
          "a ticket issued under %s (hash %s) was accepted as PSK for a "
          "handshake that negotiated %s (hash %s): the PRF hash in use is "
          "not the one the suite's name denotes" %
          (S[a].name, S[a].prf, S[b].name, S[b].prf))
    if not (oc.kind == "ok" and os_.kind == "ok"):
        v("handshake", "second|%s" % ("same" if same else "other"),
          "offering a session of another suite broke the handshake: %r %r"
          % (oc.exc, os_.exc))
    elif obs["sh"]["suite"] != b:
        v("suite", "second", "negotiated %#x, only %#x was offered" %
          (obs["sh"]["suite"], b))
    else:
        how = "resumed" if resumed else "full"
        for w, ep in (("client", pair2.c), ("server", pair2.s)):
            if ep.conn.session.cipherSuite != b:
                v("accessor", "session_suite|%s|%s" % (w, how),
                  "%s: session.cipherSuite %#x after a %s handshake that "
                  "negotiated %#x" % (w, ep.conn.session.cipherSuite, how,
                                      b))
            elif ep.conn.session.getCipherName() != ep.conn.getCipherName():
                v("accessor", "cipher_name|%s|%s" % (w, how),
                  "%s: session says %r, connection says %r" % (
                      w, ep.conn.session.getCipherName(),
                      ep.conn.getCipherName()))
        # the keys in use after a KeyUpdate are still those of the suite
        eps2 = {"c": pair2.c, "s": pair2.s}
        st2 = sim_script.run_script(
            sim, eps2,
            [["c", "ku"], ["c", "w"], ["s", "r"], ["s", "ku"], ["s", "w"],
             ["c", "r"]],
            lambda ep, op: {
                "ku": lambda: ep.conn.send_keyupdate_request(1),
                "w": lambda: ep.conn.writeAsync(b"after"),
                "r": lambda: ep.conn.readAsync(None, 5)}[op[1]])
        bad = [(w, o.desc, o.exc) for w in "cs" for o in eps2[w].history[1:]
               if o.kind == "exc"]
        rd = [bytes(o.value) for w in "cs" for o in eps2[w].history[1:]
              if o.kind == "ok" and o.desc[0] == "r"]
        if bad or st2 != "idle" or rd != [b"after", b"after"]:
            v("keyupdate", "after_%s|%s" % (how, "same" if same else
                                            "other"),
              "data exchange after KeyUpdate on the %s connection failed: "
              "%r status=%s reads=%r" % (how, bad, st2, rd))
        probes["keyupdate_after_second"] = 1
    return _result(job, ch, sim, pair2, viol, probes, True, "ro")


def hello_random(pipe, want_type):
    rp = net.RecordParser()
    for typ, ver, body in rp.feed(bytes(pipe.wire_log)):
        if typ == 22 and body and body[0] == want_type:
            return bytes(body[6:38])
    return None


def hs_messages(records):
    """Split concatenated handshake plaintext into messages."""
    out = []
    buf = b"".join(records)
    i = 0
    while i + 4 <= len(buf):
        ln = int.from_bytes(buf[i + 1:i + 4], "big")
        out.append(buf[i:i + 4 + ln])
        i += 4 + ln
    return out


def run(job, streams=None):
    seed = job["seed"]
    sid = job["sid"]
    ver = tuple(job["ver"])
    case = job["case"]
    suite = scen.all_suites().get(sid)
    etm = job.get("etm", True)
    ch = kernel.Chooser(seed=seed) if streams is None else \
        kernel.Chooser(streams=streams)
    rep = job.get("rep", 0)
    policy = "ideal" if rep == 0 else "random"
    viol = []
    probes = {case: 1}
    ctx = "[suite=%s %#06x ver=%s case=%s etm=%s]" % (
        suite.name if suite else job.get("dual"), sid, ver, case, etm)

    def v(rule, sig, msg):
        viol.append({"rule": rule, "sig": "%s|%s" % (case, sig),
                     "msg": msg + " " + ctx})

    if case == "resume_other":
        return run_resume_other(job, ch, seed, policy, v, viol, probes)
    if case == "dualcert":
        return run_dualcert(job, ch, seed, policy, v, viol, probes)
    if case == "odd_dh":
        return run_odd_dh(job, ch, seed, policy, v, viol, probes)
    sc = scen.suite_scenario(sid, ver, etm)
    if case == "wrongkey":
        other = {"rsa": "ecdsa", "ecdsa": "rsa", "dsa": "rsa"}[suite.auth]
        sc["skey"] = other
    base_ver = ver
    if case in ("byz_client", "byz_server"):
        # the honest side runs a normal configuration at version `ver`;
        # the byzantine side is rewritten at message level (see below)
        honest = {"minVersion": list(ver), "maxVersion": list(ver)}
        wide = {"minVersion": list(min(ver, suite.min_version)),
                "maxVersion": list(max(ver, suite.max_version)),
                "cipherNames": [suite.cipher, "aes128", "aes128gcm"],
                "macNames": [suite.mac, "sha", "aead"]}
        fl = scen.suite_flavour(suite)
        sc = dict(fl)
        sc["version"] = list(ver)
        if case == "byz_server":
            # client offers the suite (it supports a version that defines
            # it) and also `ver`; server is honest at `ver`
            sc["cset"] = dict(wide)
            sc["sset"] = dict(honest)
            if suite.kx_setting:
                sc["cset"]["keyExchangeNames"] = [suite.kx_setting]
        else:
            sc["cset"] = dict(wide)
            sc["cset"]["minVersion"] = list(ver)
            sc["cset"]["maxVersion"] = list(ver)
            sc["sset"] = dict(honest)
        if sc.get("flavour") in ("srp", "srp_cert") and ver == (3, 4):
            sc["flavour"] = "cert"
            sc["skey"] = "rsa"
    sim = nodes.new_run(seed, chooser=ch, max_steps=100000)
    try:
        pair = nodes.Pair(sim, sc, policy=policy,
                          wb_budget=kernel.Budget(20),
                          delay_budget=kernel.Budget(20))
    except ValueError as e:
        # settings rejected outright: counts as refusal
        return _result(job, ch, sim, None, viol, probes, False,
                       "settings:%s" % e)
    ip = None
    if case == "byz_client":
        def rule(msg, ctx):
            if type(msg).__name__ == "ClientHello":
                msg.cipher_suites = [sid]
                ctx.fire("ch_suites")
                return [msg]
        ip = byz.Interposer(pair.c.conn, [rule])
    if case == "byz_server":
        def rule(msg, ctx):
            if type(msg).__name__ == "ServerHello":
                msg.cipher_suite = sid
                ctx.fire("sh_suite")
                return [msg]
        ip = byz.Interposer(pair.s.conn, [rule])
    order = []
    tp = {}
    for w, ep in (("c", pair.c), ("s", pair.s)):
        t = taps.SendTap(ep.conn)
        t.keep_plain = True
        tp[w] = t
    oc, os_, st = pair.handshake()
    both = oc.kind == "ok" and os_.kind == "ok"
    cs_c = pair.c.conn.session.cipherSuite if oc.kind == "ok" else None
    cs_s = pair.s.conn.session.cipherSuite if os_.kind == "ok" else None
    vc = tuple(pair.c.conn.version)
    vs = tuple(pair.s.conn.version)
    nontrivial = False

    if case in ("byz_client", "byz_server", "wrongkey"):
        if case == "wrongkey":
            for w, okk, cs in (("c", oc.kind == "ok", cs_c),
                               ("s", os_.kind == "ok", cs_s)):
                if okk and cs == sid:
                    v("wrong_key_type", w,
                      "%s completed suite requiring a %s key with a %s "
                      "credential" % (w, suite.auth, sc["skey"]))
            nontrivial = True
        elif case == "byz_client":
            # the honest server must not answer with a ServerHello that
            # selects the suite in a version that does not define it
            fired = bool(ip.fired)
            smsgs = hs_messages([r[4] for r in tp["s"].records
                                 if r[0] == 22 and r[4][:1] == b"\x02"])
            for m in smsgs:
                if m[0] == 2:
                    sidlen = m[38]
                    chosen = int.from_bytes(m[39 + sidlen:41 + sidlen], "big")
                    if chosen == sid and m[6:38] != HRR_RANDOM:
                        v("undefined_version", "server_selected",
                          "server selected the suite in version %s where it "
                          "is not defined" % (ver,))
            if os_.kind == "ok" and cs_s == sid:
                v("undefined_version", "server_completed",
                  "server completed with the suite in %s" % (vs,))
            nontrivial = fired and os_.kind == "exc"
        else:
            # the honest client must abort right after the ServerHello
            fired = bool(ip.fired)
            crecs = [r for r in tp["c"].records]
            after = [r for r in crecs[1:] if r[0] in (22, 20, 23)]
            if fired and after and not (ver == (3, 4) and
                                        all(r[0] == 20 for r in after)):
                v("undefined_version", "client_continued",
                  "client kept handshaking (sent %d more records) after a "
                  "ServerHello selecting the suite in version %s" %
                  (len(after), ver))
            if oc.kind == "ok":
                v("undefined_version", "client_completed",
                  "client completed after ServerHello (suite, version) "
                  "undefined")
            nontrivial = fired and oc.kind == "exc"
        return _result(job, ch, sim, pair, viol, probes, nontrivial,
                       repr((oc.sig(), os_.sig())))

    # ---------------- positive cell
    if not both or st != "idle":
        v("no_handshake", "%s|%s" % (type(oc.exc).__name__,
                                     type(os_.exc).__name__),
          "defined suite did not negotiate: client=%r server=%r" %
          (oc.exc, os_.exc))
        return _result(job, ch, sim, pair, viol, probes, False, "nohs")
    if cs_c != sid or cs_s != sid:
        v("wrong_suite", "id", "negotiated %r/%r" % (cs_c, cs_s))
    if vc != ver or vs != ver:
        v("wrong_version", "ver", "versions %s/%s" % (vc, vs))
    # --- ServerKeyExchange / certificate presence on the wire (<= 1.2)
    if ver < (3, 4):
        smsgs = hs_messages([r[4] for r in tp["s"].records if r[0] == 22])
        types = [m[0] for m in smsgs]
        has_ske = 12 in types
        if has_ske != bool(suite.ske):
            v("ske", "presence", "ServerKeyExchange %s but the name implies "
              "%s" % ("sent" if has_ske else "absent",
                      "one" if suite.ske else "none"))
        has_cert = 11 in types
        if has_cert != (suite.auth is not None):
            v("cert", "presence", "server Certificate %s but auth=%s" %
              ("sent" if has_cert else "absent", suite.auth))
    # --- record layer objects
    for w, ep in (("c", pair.c), ("s", pair.s)):
        rl = ep.conn._recordLayer
        for stn, stt in (("write", rl._writeState), ("read", rl._readState)):
            enc = stt.encContext
            mac = stt.macContext
            if suite.kind == "null":
                if enc is not None:
                    v("cipher_obj", "null", "NULL suite has a cipher object")
            else:
                want = suite.cipher.replace("_draft00", "")
                if enc is None or enc.name != want:
                    v("cipher_obj", "name", "%s %s cipher object is %r, "
                      "name implies %s" % (w, stn, getattr(enc, "name", None),
                                           want))
                elif bool(enc.isAEAD) != (suite.kind == "aead"):
                    v("cipher_obj", "aead_flag", "isAEAD mismatch")
                elif suite.kind == "aead" and enc.tagLength != suite.tag_len:
                    v("cipher_obj", "tag", "tag length %d, name implies %d" %
                      (enc.tagLength, suite.tag_len))
                elif suite.kind == "cbc" and enc.block_size != suite.block:
                    v("cipher_obj", "block", "block size %d != %d" %
                      (enc.block_size, suite.block))
                if suite.kind == "aead" and enc is not None and \
                        len(enc.key) != suite.key_len:
                    v("cipher_obj", "keylen", "AEAD key is %d bytes, name "
                      "implies %d" % (len(enc.key), suite.key_len))
            if suite.kind == "aead":
                if mac is not None:
                    v("mac_obj", "aead_has_mac", "AEAD suite has a MAC object")
            else:
                if mac is None or mac.digest_size != suite.mac_len:
                    v("mac_obj", "size", "MAC digest size %r, name implies %d"
                      % (getattr(mac, "digest_size", None), suite.mac_len))
        # accessors
        got = ep.conn.getCipherName()
        want = None if suite.kind == "null" else \
            suite.cipher.replace("_draft00", "")
        if got != want:
            v("accessor", "conn.getCipherName", "%r != %r" % (got, want))
        got = ep.conn.session.getCipherName()
        if got != suite.cipher:
            v("accessor", "session.getCipherName", "%r != %r" %
              (got, suite.cipher))
        got = ep.conn.session.getMacName()
        want = None if suite.mac == "aead" else suite.mac
        if got != want:
            v("accessor", "session.getMacName", "%r != %r" % (got, want))
    # --- key material re-derivation
    master = bytes(pair.c.conn.session.masterSecret)
    cr = hello_random(pair.link.c2s, 1)
    sr = hello_random(pair.link.s2c, 2)
    hname = suite.prf
    if ver == (3, 4):
        sess = pair.c.conn.session
        for w, ep in (("c", pair.c), ("s", pair.s)):
            rl = ep.conn._recordLayer
            for who, secret, stt in (
                    ("c", sess.cl_app_secret,
                     rl._writeState if w == "c" else rl._readState),
                    ("s", sess.sr_app_secret,
                     rl._writeState if w == "s" else rl._readState)):
                key = mprf.hkdf_expand_label(hname, bytes(secret), b"key",
                                             b"", suite.key_len)
                iv = mprf.hkdf_expand_label(hname, bytes(secret), b"iv", b"",
                                            12)
                if bytes(stt.encContext.key) != key or \
                        bytes(stt.fixedNonce) != iv:
                    v("keys", "tls13_traffic", "%s's %s-traffic key/iv is "
                      "not HKDF-Expand-Label(secret, key/iv) with %s and %d "
                      "key bytes" % (w, who, hname, suite.key_len))
        probes["aead_keys_checked"] = 1
        # the two app secrets must come from one master secret with the right
        # hash length
        if len(sess.cl_app_secret) != hashlib.new(hname).digest_size:
            v("keys", "secret_len", "traffic secret length %d" %
              len(sess.cl_app_secret))
    elif cr and sr:
        klen = 2 * suite.mac_len + 2 * suite.key_len + 2 * suite.iv_len
        if ver == (3, 0):
            kb = mprf.ssl3_key_block(master, sr, cr, klen)
        else:
            kb = mprf.prf(ver, hname, master, b"key expansion", sr + cr, klen)
        o = 0
        cmac, smac = kb[o:o + suite.mac_len], \
            kb[o + suite.mac_len:o + 2 * suite.mac_len]
        o += 2 * suite.mac_len
        ckey, skey = kb[o:o + suite.key_len], \
            kb[o + suite.key_len:o + 2 * suite.key_len]
        o += 2 * suite.key_len
        civ, siv = kb[o:o + suite.iv_len], \
            kb[o + suite.iv_len:o + 2 * suite.iv_len]
        if suite.kind == "aead":
            for w, ep in (("c", pair.c), ("s", pair.s)):
                rl = ep.conn._recordLayer
                wk, wiv = (ckey, civ) if w == "c" else (skey, siv)
                rk, riv = (skey, siv) if w == "c" else (ckey, civ)
                if bytes(rl._writeState.encContext.key) != wk or \
                        bytes(rl._writeState.fixedNonce) != wiv or \
                        bytes(rl._readState.encContext.key) != rk or \
                        bytes(rl._readState.fixedNonce) != riv:
                    v("keys", "key_block", "%s's AEAD keys/IVs are not the "
                      "RFC key block slices (PRF %s, key %d, iv %d)" %
                      (w, hname, suite.key_len, suite.iv_len))
            probes["aead_keys_checked"] = 1
    # --- data exchange: expansion and visible MACs
    eps = {"c": pair.c, "s": pair.s}
    L = 37
    n_before = {w: len(tp[w].records) for w in "cs"}

    def op_gen(ep, op):
        if op[1] == "write":
            data = scen.payload(7, 0, op[2])
            return lambda: ep.conn.writeAsync(data)
        return lambda: ep.conn.readAsync(None, op[2])
    st = sim_script.run_script(sim, eps, [["c", "write", L], ["s", "read", L],
                                          ["s", "write", L], ["c", "read", L]],
                               op_gen)
    if st != "idle" or any(o.kind != "ok" for w in "cs"
                           for o in eps[w].history):
        v("data", "exchange", "data exchange failed: %r" %
          [(o.desc, o.exc) for w in "cs" for o in eps[w].history
           if o.kind != "ok"])
    else:
        for w, pipe, mk in (("c", pair.link.c2s, "c"),
                            ("s", pair.link.s2c, "s")):
            rp = net.RecordParser()
            wire = rp.feed(bytes(pipe.sent_log))
            recs = tp[w].records
            seqbase = None
            for i in range(n_before[w], len(recs)):
                ctype, plen = recs[i][0], recs[i][1]
                if ctype != 23:
                    continue
                wtype, wver, body = wire[i]
                inner = plen + 1 if ver == (3, 4) else plen
                exp = suite.expansion(ver, pair.c.conn.encryptThenMAC, inner)
                if len(body) != exp:
                    v("expansion", suite.kind, "%s app record with %d "
                      "plaintext bytes is %d bytes on the wire, name implies "
                      "%d" % (w, plen, len(body), exp))
                probes["expansion_checked"] = 1
                if plen == 1 and L > 1:
                    probes["split_1n1"] = 1
                # wire-visible MAC: NULL cipher (MtE) or EtM
                if ver in ((3, 1), (3, 2), (3, 3)) and suite.kind != "aead" \
                        and cr and sr:
                    mkey = cmac if mk == "c" else smac
                    # sequence number = count of protected records before
                    nprot = 0
                    seen_ccs = False
                    for j in range(i):
                        if seen_ccs:
                            nprot += 1
                        if recs[j][0] == 20:
                            seen_ccs = True
                    hm = {"md5": "md5", "sha": "sha1", "sha256": "sha256",
                          "sha384": "sha384"}[suite.mac]
                    if suite.kind == "null":
                        data, tag = body[:plen], body[plen:]
                        want = mprf.record_mac(hm, mkey, nprot, 23, ver, data)
                        if tag != want:
                            v("mac", "null_mte", "%s record MAC is not "
                              "HMAC-%s under the RFC key-block MAC key" %
                              (w, hm))
                        probes["mac_checked"] = 1
                    elif suite.kind == "cbc" and \
                            pair.c.conn.encryptThenMAC:
                        ct, tag = body[:-suite.mac_len], body[-suite.mac_len:]
                        want = mprf.record_mac(hm, mkey, nprot, 23, ver, ct)
                        if tag != want:
                            v("mac", "etm", "%s EtM record MAC is not "
                              "HMAC-%s under the RFC key-block MAC key" %
                              (w, hm))
                        probes["mac_checked"] = 1
    # --- TLS 1.3: traffic keys after a KeyUpdate in each direction
    if ver == (3, 4) and not viol:
        sess0 = pair.c.conn.session
        old = {"c": bytes(sess0.cl_app_secret), "s": bytes(sess0.sr_app_secret)}

        def op_gen2(ep, op):
            if op[1] == "ku":
                return lambda: ep.conn.send_keyupdate_request(0)
            if op[1] == "write":
                return lambda: ep.conn.writeAsync(b"after-ku")
            return lambda: ep.conn.readAsync(None, 8)
        st = sim_script.run_script(
            sim, eps, [["c", "ku"], ["c", "write"], ["s", "read"],
                       ["s", "ku"], ["s", "write"], ["c", "read"]], op_gen2)
        hlen = hashlib.new(hname).digest_size
        for who in "cs":
            new = mprf.hkdf_expand_label(hname, old[who], b"traffic upd",
                                         b"", hlen)
            key = mprf.hkdf_expand_label(hname, new, b"key", b"",
                                         suite.key_len)
            iv = mprf.hkdf_expand_label(hname, new, b"iv", b"", 12)
            for w, ep in (("c", pair.c), ("s", pair.s)):
                rl = ep.conn._recordLayer
                stt = rl._writeState if w == who else rl._readState
                sec = ep.conn.session.cl_app_secret if who == "c" else \
                    ep.conn.session.sr_app_secret
                if bytes(sec) != new or bytes(stt.encContext.key) != key or \
                        bytes(stt.fixedNonce) != iv:
                    v("keys", "tls13_keyupdate", "%s's %s-traffic secret/"
                      "key/iv after KeyUpdate are not HKDF-Expand-Label("
                      "secret, 'traffic upd') with %s" % (w, who, hname))
        probes["keyupdate_keys_checked"] = 1
    # --- exporter
    if ver >= (3, 1):
        lab = b"EXPORTER-verif"
        for w, ep in (("c", pair.c), ("s", pair.s)):
            got = bytes(ep.conn.keyingMaterialExporter(bytearray(lab), 40))
            if ver == (3, 4):
                want = mprf.exporter13(
                    hname, bytes(ep.conn.session.exporterMasterSecret), lab,
                    b"", 40)
            elif cr and sr:
                want = mprf.prf(ver, hname, master, lab, cr + sr, 40)
            else:
                want = got
            if got != want:
                v("exporter", w, "%s keyingMaterialExporter differs from "
                  "RFC 5705/8446 computation with PRF %s" % (w, hname))
            probes["exporter_checked"] = 1
    # --- Finished verify_data (TLS 1.0 - 1.2)
    if ver in ((3, 1), (3, 2), (3, 3)):
        allrec = sorted([(r[5], "c", r) for r in tp["c"].records] +
                        [(r[5], "s", r) for r in tp["s"].records])
        hs_plain = [(w, r[4]) for _, w, r in allrec if r[0] == 22]
        # transcript = all handshake messages in order; find the Finished
        msgs = []
        buf = {"c": b"", "s": b""}
        for w, data in hs_plain:
            buf[w] += data
            while len(buf[w]) >= 4:
                ln = int.from_bytes(buf[w][1:4], "big")
                if len(buf[w]) < 4 + ln:
                    break
                msgs.append((w, buf[w][:4 + ln]))
                buf[w] = buf[w][4 + ln:]
        transcript = b""
        for w, m in msgs:
            if m[0] == 20:
                label = b"client finished" if w == "c" else b"server finished"
                if ver == (3, 3):
                    hh = hashlib.new(hname, transcript).digest()
                else:
                    hh = hashlib.md5(transcript).digest() + \
                        hashlib.sha1(transcript).digest()
                want = mprf.prf(ver, hname, master, label, hh, 12)
                if m[4:] != want:
                    v("finished", w, "%s Finished verify_data is not "
                      "PRF_%s(master, label, Hash(transcript))" % (w, hname))
                probes["finished_checked"] = 1
            if m[0] != 0:
                transcript += m
    return _result(job, ch, sim, pair, viol, probes, not viol, "pos")


def _result(job, ch, sim, pair, viol, probes, nontrivial, tag):
    h = hashlib.sha256()
    if pair is not None:
        h.update(bytes(pair.link.c2s.wire_log))
        h.update(bytes(pair.link.s2c.wire_log))
    h.update(tag.encode())
    h.update(json.dumps([x["sig"] for x in viol]).encode())
    key = json.dumps([job["sid"], job["ver"], job["case"], job.get("etm"),
                      job.get("rep"), job.get("sid2"), job.get("dual"),
                      job.get("ems")])
    return {"violations": viol, "nontrivial": nontrivial, "key": key,
            "digest": h.hexdigest(), "faults": dict(sim.stats),
            "probes": probes, "steps": sim.steps,
            "order": sim.order.hexdigest(),
            "states": ["%s/%s/%s" % (job["sid"], job["ver"], job["case"])],
            "streams": ch.streams(), "inconclusive": False,
            "sample": {k: v_ for k, v_ in job.items() if k != "keep"}}
