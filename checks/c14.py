"""C14 - results do not depend on how the transport chunks, delays or blocks.

For one seed the same scenario and operation script is executed over an ideal
transport (reference) and over perturbed transports / other API flavours.
Each endpoint has its own entropy stream, so its behaviour must be a function
of the bytes it receives only: byte streams, results and exceptions must be
identical.
"""

import hashlib
import json

from sim import kernel
kernel.boot()
from sim import nodes, scen, views, loop, net   # noqa: E402
from sim import variants, script as sim_script   # noqa: E402

ID = "C14"
LEVEL = "exploration"
RULE = ("job = seed -> (scenario: version x flavour x options; op script: "
        "writes/reads/close on both ends) executed on an ideal transport and "
        "on a perturbed one (modes: chunk = random recv/send sizes, "
        "would-blocks, delivery delays, random step order; byte = 1-byte "
        "I/O; sync = blocking API on baton-passed threads; asm = "
        "AsyncStateMachine; reframe = handshake records re-fragmented / "
        "coalesced in flight).  distinct = digest(scenario, script, mode, "
        "effective choice log); non-trivial = both handshakes ran to a result "
        "and at least one perturbation actually fired"
        ' closeSocket=False (bidirectional close) is a scenario dimension.'
        ' sync mode goes through the blocking entry points (handshakeServer, handshakeClient*(async_=False)); the server may be told the name it serves (sni).'
        ' Generator protocol: an operation yields at most one result value.'
        " Mode twin: two connections of the same scenario live in one process, all senders fragment (recordSize 64), perturbed transports and random interleaving; connection A's outcomes, negotiated parameters and data must equal its solo run.")
LEVEL_TEXT = ("Seeded search over transport schedules: every run compares a "
              "perturbed execution (random recv/send sizes, would-blocks, "
              "delivery delays, step order, 1-byte I/O, blocking API on "
              "scheduled threads, AsyncStateMachine, re-framed handshake "
              "records) byte-for-byte with the ideal-transport execution of "
              "the same seed.  Sampling, not proof: a clean batch is "
              "evidence over the schedules and scenarios drawn.")
LEVEL_NOTE = ("Trusted: the simulator (FakeSocket semantics, per-node entropy "
              "streams derived from the seed), python-ecdsa.  sendall() is "
              "modelled all-or-error.  Only pure-Python backends present in "
              "/venv are exercised.")
BUDGET = {"quick": 300, "thorough": 900}
CHUNK = 4
PROBES = ["short_recv", "partial_send", "wouldblock_recv", "wouldblock_send",
          "delay", "hs_failed_both", "closed_by_peer", "mode_sync",
          "mode_asm", "mode_reframe", "mode_byte", "mode_chunk", "hrr",
          "mode_twin",
          "wouldblock_mid_record"]
COMPONENTS_REAL = ["tlslite.* (handshake state machines, record layer, "
                   "BufferedSocket, Defragmenter, AsyncStateMachine, "
                   "pure-Python crypto)", "python-ecdsa"]
COMPONENTS_STUB = ["socket (FakeSocket over in-memory Pipes)",
                   "os.urandom (per-node PRNG streams)",
                   "time.time in tlslite modules (SimClock)",
                   "thread scheduling for the blocking API (baton)"]
ASSUMPTIONS = [
    "sendall() is modelled as all-or-error (would-block inside "
    "BufferedSocket.flush()->sendall is a documented limitation, see DESIGN "
    "F-09); would-block is injected on send()/recv() only",
    "a peer that has closed its socket still lets our writes succeed (no RST "
    "is synthesised in this check; transport failures are C17)"]

MODES = ["chunk", "byte", "sync", "asm", "reframe", "chunk", "reframe",
         "twin"]


def plan(tier, base_seed):
    n = {"quick": 3000, "thorough": 400000}[tier]
    jobs = []
    for i in range(n):
        jobs.append({"seed": base_seed * 1000003 + i,
                     "mode": MODES[i % len(MODES)]})
    for j in jobs[:3]:
        j["keep"] = True
    return jobs


def draw_script(ch, sc, mode):
    """Global op order; each endpoint executes its own subsequence."""
    nops = 2 + ch.draw(7, "op.n")
    out = []
    avail = {"c": 0, "s": 0}       # bytes written towards X, not yet read
    wrote = {"c": 0, "s": 0}
    closed = set()
    cap = 3000 if "3des" in json.dumps(sc) else 20000
    if mode in ("byte", "sync"):
        cap = 1500
    for i in range(nops):
        who = "cs"[ch.draw(2, "op.who")]
        peer = "s" if who == "c" else "c"
        if who in closed:
            continue
        k = ch.draw(8, "op.kind")
        if k in (0, 1, 2):
            n = scen.draw_len(ch, "op.len", cap=cap)
            out.append([who, "write", wrote[who], n])
            wrote[who] += n
            avail[peer] += n
        elif k in (3, 4, 5):
            if avail[who] == 0:
                # make it satisfiable: peer writes first
                n = 1 + scen.draw_len(ch, "op.len", cap=cap)
                out.append([peer, "write", wrote[peer], n])
                wrote[peer] += n
                avail[who] += n
                if peer in closed:
                    out.pop()
                    wrote[peer] -= n
                    avail[who] -= n
                    continue
            mn = 1 + ch.draw(avail[who], "op.min")
            mx = [None, mn, mn + 1, 1 << 16][ch.draw(4, "op.max")]
            out.append([who, "read", mx, mn])
            # a read consumes at most max bytes, and never a record that is
            # not needed to reach min: lower bound on what stays guaranteed
            avail[who] -= avail[who] if mx is None else min(avail[who], mx)
        elif k == 6:
            out.append([who, "close"])
            closed.add(who)
            # the peer keeps reading past the end of the data: it meets the
            # close_notify inside a read (and has to answer it from there)
            if peer not in closed and ch.draw(3, "op.readclose") != 2:
                out.append([peer, "read", None, avail[peer] + 1])
                avail[peer] = 0
        else:
            n = ch.draw(3, "op.small")
            out.append([who, "write", wrote[who], n])
            wrote[who] += n
            avail[peer] += n
    for who in "cs":
        if who not in closed:
            out.append([who, "close"])
    return out


def op_gen(ep, op):
    conn = ep.conn
    if op[1] == "write":
        data = scen.payload(1 if ep.name == "c" else 2, op[2], op[3])
        return lambda: conn.writeAsync(data)
    if op[1] == "read":
        return lambda: conn.readAsync(op[2], op[3])
    if op[1] == "close":
        return lambda: conn.closeAsync()
    raise ValueError(op)


def execute(seed, sc, script, mode, chooser):
    """One execution; returns a comparable trace dict."""
    if mode == "sync":
        return variants.execute_sync(seed, sc, script, chooser)
    if mode == "asm":
        return variants.execute_asm(seed, sc, script, chooser)
    policy = {"ideal": "ideal", "chunk": "random", "byte": "byte",
              "reframe": "ideal"}[mode]
    sim = nodes.new_run(seed, chooser=chooser, max_steps=400000,
                        sched="random" if mode != "ideal" else "first")
    wb = kernel.Budget(30)
    dl = kernel.Budget(30)
    pair = nodes.Pair(sim, sc, policy=policy, wb_budget=wb, delay_budget=dl)
    if mode == "reframe":
        variants.install_reframer(pair.link, chooser, sim.stats)
    oc, os_, st = pair.handshake()
    tr = {"hs": [oc.sig(), os_.sig()], "status": [st], "ops": {"c": [],
                                                               "s": []}}
    tr["view_c"] = views.view(pair.c.conn) if oc.kind == "ok" else None
    tr["view_s"] = views.view(pair.s.conn) if os_.kind == "ok" else None
    if oc.kind == "ok" and os_.kind == "ok" and st == "idle":
        eps = {"c": pair.c, "s": pair.s}
        st = sim_script.run_script(sim, eps, script, op_gen)
        tr["status"].append(st)
        for w in "cs":
            tr["ops"][w] = [o.sig() for o in eps[w].history[1:]]
            # the documented generator protocol: at most one result value
            tr["_multi"] = tr.get("_multi", []) + [
                [w, list(o.desc), o.nvalues] for o in eps[w].history
                if o.nvalues > 1]
    tr["wire"] = {"c2s": variants.stream_digest(pair.link.c2s, mode),
                  "s2c": variants.stream_digest(pair.link.s2c, mode)}
    tr["_sim"] = sim
    tr["_pair"] = pair
    return tr


def execute_twin(seed, sc, script, chooser, solo):
    """Two connections of the same scenario live in ONE process and are
    stepped in a random interleaving; every sender fragments its messages
    (recordSize 64), so half-received handshake messages are buffered all the
    time.  Connection A (same names, same entropy as the solo run) must
    behave exactly as if it were alone."""
    sim = nodes.new_run(seed, chooser=chooser, max_steps=800000,
                        sched="first" if solo else "random")
    pol = "ideal" if solo else "random"
    pairs = [nodes.Pair(sim, sc, policy=pol, wb_budget=kernel.Budget(40),
                        delay_budget=kernel.Budget(40))]
    if not solo:
        pairs.append(nodes.Pair(sim, sc, policy=pol, names=("c2", "s2"),
                                wb_budget=kernel.Budget(40),
                                delay_budget=kernel.Budget(40)))
    for p in pairs:
        p.c.conn.recordSize = 64
        p.s.conn.recordSize = 64
    outs = [(p.c.start(("handshake", "client"), p.client_gen(None)),
             p.s.start(("handshake", "server"), p.server_gen(None)))
            for p in pairs]
    st = sim.run()
    oc, os_ = outs[0]
    tr = {"hs": [oc.sig(), os_.sig()], "status": [st], "ops": {"c": [],
                                                               "s": []}}
    pair = pairs[0]
    tr["view_c"] = views.view(pair.c.conn) if oc.kind == "ok" else None
    tr["view_s"] = views.view(pair.s.conn) if os_.kind == "ok" else None
    if all(o.kind == "ok" for pr in outs for o in pr) and st == "idle":
        eps = {"c": pair.c, "s": pair.s}
        scr = list(script)
        if not solo:
            eps.update({"c2": pairs[1].c, "s2": pairs[1].s})
            scr = scr + [[o[0] + "2"] + o[1:] for o in script]
        st = sim_script.run_script(sim, eps, scr, lambda ep, op: op_gen(
            ep, op) if not ep.name.endswith("2") else op_gen2(ep, op))
        tr["status"].append(st)
        for w in "cs":
            tr["ops"][w] = [o.sig() for o in eps[w].history[1:]]
    # the two servers share their key objects (as servers do), so which of
    # them creates the RSA blinding pair - and with it the position in its
    # entropy stream - depends on the interleaving: random values on the wire
    # are not comparable, outcomes, negotiated parameters and data are
    for k_ in ("view_c", "view_s"):
        if tr[k_]:
            tr[k_] = {f: tr[k_].get(f) for f in (
                "version", "suite", "cipher_name", "resumed", "ems", "etm",
                "alpn", "sni", "server_chain", "client_chain", "srp_user",
                "send_limit", "recv_limit", "closed")}
    tr["_sim"] = sim
    tr["_pair"] = pair
    sim.stats["twin_interleaved"] = 0 if solo else 1
    return tr


def op_gen2(ep, op):
    conn = ep.conn
    if op[1] == "write":
        data = scen.payload(1 if ep.name == "c2" else 2, op[2], op[3])
        return lambda: conn.writeAsync(data)
    return op_gen(ep, op)


def comparable(tr):
    return {k: v for k, v in tr.items() if not k.startswith("_")}


def first_diff(a, b, path=""):
    if type(a) != type(b):
        return "%s: %r != %r" % (path, a, b)
    if isinstance(a, dict):
        for k in sorted(set(a) | set(b)):
            if k not in a or k not in b:
                return "%s.%s: missing on one side" % (path, k)
            d = first_diff(a[k], b[k], path + "." + str(k))
            if d:
                return d
        return None
    if isinstance(a, (list, tuple)):
        if len(a) != len(b):
            return "%s: length %d != %d (%r vs %r)" % (path, len(a), len(b),
                                                     a[-1:], b[-1:])
        for i, (x, y) in enumerate(zip(a, b)):
            d = first_diff(x, y, "%s[%d]" % (path, i))
            if d:
                return d
        return None
    if a != b:
        return "%s: %r != %r" % (path, a, b)
    return None


def run(job, streams=None):
    seed = job["seed"]
    mode = job["mode"]
    ch = kernel.Chooser(seed=seed) if streams is None else \
        kernel.Chooser(streams=streams)
    sc = scen.draw_flavour(ch)
    if ch.draw(3, "cfg.keepsock") == 1:
        sc["close_socket"] = False
    if sc.get("sni") and ch.draw(3, "cfg.snis") == 1:
        # the server is told which name it serves (matching or not)
        sc["sni_s"] = [sc["sni"], "other.example"][ch.draw(2, "cfg.snisv")]
    if ch.draw(12, "cfg.incompat") == 1:
        # a failing handshake must fail the same way on every transport
        sc["cset"]["cipherNames"] = ["aes128"]
        sc["sset"]["cipherNames"] = ["aes256"]
    script = draw_script(ch, sc, mode)
    if mode == "twin":
        ref = execute_twin(seed, sc, script, kernel.Chooser(streams={}),
                           True)
        refc = json.loads(json.dumps(comparable(ref), default=str))
        got = execute_twin(seed, sc, script, ch, False)
    else:
        ref = execute(seed, sc, script, "ideal", kernel.Chooser(streams={}))
        refc = json.loads(json.dumps(comparable(ref), default=str))
        got = execute(seed, sc, script, mode, ch)
    gotc = json.loads(json.dumps(comparable(got), default=str))
    viol = []
    d = first_diff(refc, gotc)
    inconclusive = ("cap" in gotc["status"] and mode in ("byte", "chunk")) \
        or "cap" in refc["status"]
    if "cap" in gotc["status"] and mode in ("asm", "sync", "reframe") and \
            "cap" not in refc["status"]:
        viol.append({"rule": "liveness",
                     "sig": "%s|spin" % mode,
                     "msg": "mode=%s scenario=%s: no progress within the "
                     "step cap (the operation keeps asking for the same "
                     "event) while the ideal-transport run finished" %
                     (mode, json.dumps(sc, sort_keys=True))})
    elif d and not inconclusive:
        # classify: liveness vs result difference
        rule = "liveness" if "stuck" in gotc["status"] and \
            "stuck" not in refc["status"] else "outcome"
        where = d.split(":")[0]
        viol.append({"rule": rule,
                     "sig": "%s|%s" % (mode, _stable(where)),
                     "msg": "mode=%s scenario=%s: %s" %
                     (mode, json.dumps(sc, sort_keys=True), d)})
    for tr_ in (ref, got):
        for w_, d_, n_ in tr_.get("_multi", []):
            viol.append({"rule": "outcome",
                         "sig": "generator_protocol|%s|%d_results" % (d_[0],
                                                                      n_),
                         "msg": "mode=%s scenario=%s: %s op %r yielded %d "
                         "result values; a caller following the generator "
                         "protocol stops at the first and sees another "
                         "outcome than the blocking call" %
                         (mode, json.dumps(sc, sort_keys=True), w_, d_, n_)})
    stats = dict(got["_sim"].stats) if got.get("_sim") is not None else \
        dict(got.get("_stats", {}))
    stats.update(got.get("_stats", {}))
    fired = sum(v for k, v in stats.items()
                if k in ("short_recv", "partial_send", "wouldblock_recv",
                         "wouldblock_send", "delay", "partial_delivery",
                         "reframe_split", "reframe_merge", "thread_switch",
                         "asm_event", "twin_interleaved")) + (1 if mode == "byte" else 0)
    probes = {"mode_" + mode: 1}
    for k in ("short_recv", "partial_send", "wouldblock_recv",
              "wouldblock_send", "delay"):
        if stats.get(k):
            probes[k] = 1
    hs_ok = refc["hs"][0][1] == "ok" and refc["hs"][1][1] == "ok"
    if not hs_ok:
        probes["hs_failed_both"] = 1
    if sc.get("hrr"):
        probes["hrr"] = 1
    if stats.get("wouldblock_recv") or stats.get("wouldblock_send"):
        probes["wouldblock_mid_record"] = 1
    for w in "cs":
        reads = [x for x in script if x[0] == w and x[1] == "read"]
        outs = [o for o in refc["ops"][w] if o[0] == "read"]
        for x, o in zip(reads, outs):
            if o[1] == "ok" and isinstance(o[2], list) and o[2][1] < x[3]:
                probes["closed_by_peer"] = 1
    steps = (ref["_sim"].steps if ref.get("_sim") else 0) + \
        (got["_sim"].steps if got.get("_sim") else got.get("_steps", 0))
    key = hashlib.sha256(json.dumps([sc, script, mode, ch.streams()],
                                    sort_keys=True).encode()).hexdigest()
    dig = hashlib.sha256(json.dumps([refc, gotc, ch.digest()],
                                    sort_keys=True).encode()).hexdigest()
    order = got["_sim"].order.hexdigest() if got.get("_sim") else \
        got.get("_order", "")
    return {"violations": viol, "nontrivial": bool(fired), "key": key,
            "digest": dig, "faults": {k: v for k, v in stats.items()},
            "probes": probes, "steps": steps, "order": order,
            "states": ["%s/%s/%s/%s" % (mode, sc["version"], sc["flavour"],
                                        refc["hs"][0][1])],
            "streams": ch.streams(), "inconclusive": inconclusive,
            "sample": {"scenario": sc, "script": script, "mode": mode}}


def _stable(where):
    import re
    w = re.sub(r"\[\d+\]", "", where)
    return ".".join(w.split(".")[:2])
