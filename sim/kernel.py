"""Chooser (seed -> keyed choice streams), node context, entropy and clock seams.

One integer decides everything: every simulator decision is a
``Chooser.draw(n, label)``.  In record mode values come from one PRNG seeded
from the run seed; in replay mode they are read back from the recorded
per-label streams.  Value 0 is always the benign/simple alternative, so
truncating or zeroing a stream yields a valid, simpler execution.
"""

import hashlib
import os
import random
import sys

REPO = os.environ.get("VERIF_REPO", "/repo")


def boot(repo=None):
    """Import tlslite from the working tree ``repo`` and install the seams."""
    global REPO
    if repo:
        REPO = repo
    if "tlslite" in sys.modules:
        mod = sys.modules["tlslite"]
        if not os.path.abspath(mod.__file__).startswith(
                os.path.abspath(REPO) + os.sep):
            raise RuntimeError("tlslite already imported from %s" %
                               mod.__file__)
    else:
        sys.path.insert(0, REPO)
    import tlslite  # noqa: F401
    mod = sys.modules["tlslite"]
    if not os.path.abspath(mod.__file__).startswith(
            os.path.abspath(REPO) + os.sep):
        raise RuntimeError("tlslite imported from %s, wanted %s" %
                           (mod.__file__, REPO))
    _install_seams()
    return mod


class _Ctx(object):
    """Who is being stepped right now (selects entropy stream and clock)."""

    def __init__(self):
        self.node = None
        self.harness_rng = random.Random(0)
        self.harness_time = 1.7e9
        self.urandom_calls = 0


CTX = _Ctx()
_real_urandom = os.urandom


def sim_urandom(n):
    CTX.urandom_calls += 1
    node = CTX.node
    rng = node.rng if node is not None else CTX.harness_rng
    if n == 0:
        return b""
    return rng.getrandbits(8 * n).to_bytes(n, "big")


class _SimTimeModule(object):
    """Stands in for the ``time`` module global of the four tlslite modules
    that read a clock."""

    @staticmethod
    def time():
        node = CTX.node
        if node is not None:
            return node.now()
        return CTX.harness_time

    @staticmethod
    def sleep(_s):
        raise RuntimeError("sleep() under simulation")

    def __getattr__(self, name):
        import time as _t
        return getattr(_t, name)


SIM_TIME = _SimTimeModule()
_seams_installed = False


def _install_seams():
    global _seams_installed
    if _seams_installed:
        return
    os.urandom = sim_urandom
    import tlslite.tlsconnection
    import tlslite.tlsrecordlayer
    import tlslite.session
    import tlslite.sessioncache
    for m in (tlslite.tlsconnection, tlslite.tlsrecordlayer,
              tlslite.session, tlslite.sessioncache):
        m.time = SIM_TIME
    _seams_installed = True


def reset_harness(seed):
    CTX.node = None
    CTX.harness_rng = random.Random("harness:%d" % seed)
    CTX.harness_time = 1.7e9
    CTX.urandom_calls = 0


class Node(object):
    """Entropy stream + clock of one simulated party."""

    def __init__(self, name, seed, clock=None):
        self.name = name
        self.rng = random.Random("%s:%d" % (name, seed))
        self.clock = clock
        self.skew = 0.0

    def now(self):
        base = self.clock.t if self.clock is not None else CTX.harness_time
        return base + self.skew

    def __enter__(self):
        self._prev = CTX.node
        CTX.node = self
        return self

    def __exit__(self, *a):
        CTX.node = self._prev
        return False


class SimClock(object):
    def __init__(self, t0=1.7e9):
        self.t = t0
        self.t0 = t0

    def advance(self, dt):
        assert dt >= 0
        self.t += dt


class Chooser(object):
    """Keyed choice streams.

    record mode : ``Chooser(seed=...)``
    replay mode : ``Chooser(streams={label: [v, ...]})``
    """

    def __init__(self, seed=None, streams=None):
        self.seed = seed
        self.replay = streams is not None
        self._in = {k: list(v) for k, v in (streams or {}).items()}
        self._pos = {}
        self.out = {}
        self.rng = random.Random("chooser:%r" % (seed,)) \
            if not self.replay else None
        self.ndraws = 0
        self.nonzero = 0
        self.trace = hashlib.sha256()

    def draw(self, n, label):
        """Integer in [0, n); 0 is the benign choice."""
        if n <= 1:
            return 0
        self.ndraws += 1
        if self.replay:
            pos = self._pos.get(label, 0)
            self._pos[label] = pos + 1
            src = self._in.get(label)
            v = src[pos] if src is not None and pos < len(src) else 0
            if not (0 <= v < n):
                v = 0
        else:
            v = self.rng.randrange(n)
        self.out.setdefault(label, []).append(v)
        if v:
            self.nonzero += 1
        self.trace.update(("%s=%d/%d;" % (label, v, n)).encode())
        return v

    def chance(self, num, den, label):
        """True with probability num/den; the 0 draw is always False."""
        if num <= 0:
            return False
        v = self.draw(den, label)
        return 1 <= v <= num

    def pick(self, seq, label):
        return seq[self.draw(len(seq), label)]

    def biased(self, n, label, w0=3):
        """Integer in [0,n) with extra weight (w0 of w0+n-1) on 0."""
        if n <= 1:
            return 0
        v = self.draw(n - 1 + w0, label)
        return 0 if v < w0 else v - w0 + 1

    def streams(self):
        return {k: list(v) for k, v in self.out.items()}

    def digest(self):
        return self.trace.hexdigest()


class Budget(object):
    """Bounded counter for benign perturbations (bounded liveness)."""

    def __init__(self, n):
        self.left = n
        self.used = 0

    def take(self):
        if self.left <= 0:
            return False
        self.left -= 1
        self.used += 1
        return True
