"""Run loop: endpoints are generators stepped one at a time by the Chooser."""

import hashlib
import os

from . import kernel

_TB = bool(os.environ.get("VERIF_TB"))     # debugging aid only


class Outcome(object):
    __slots__ = ("desc", "kind", "value", "exc", "t0", "t1", "steps", "post",
                 "nvalues")

    def __init__(self, desc):
        self.desc = desc
        self.kind = None       # 'ok' | 'exc' | 'pending'
        self.value = None
        self.exc = None
        self.t0 = self.t1 = None
        self.steps = 0
        self.post = None
        # how many result values (anything but the 0 / 1 "blocked" tokens)
        # the generator yielded: the documented protocol allows one, last
        self.nvalues = 0

    def sig(self):
        """Comparable summary of an operation's result."""
        if self.kind == "ok":
            v = self.value
            if isinstance(v, (bytes, bytearray)):
                v = ("bytes", len(v), hashlib.sha256(bytes(v)).hexdigest()[:16])
            return (self.desc[0], "ok", v)
        if self.kind == "exc":
            return (self.desc[0], "exc", exc_sig(self.exc))
        return (self.desc[0], self.kind)


def exc_sig(e):
    name = type(e).__name__
    d = getattr(e, "description", None)
    lvl = getattr(e, "level", None)
    if d is not None:
        return (name, d, lvl)
    if isinstance(e, OSError):
        return (name, e.args[0] if e.args else None)
    return (name,)


class Endpoint(object):
    def __init__(self, sim, name, sock, node):
        from tlslite.tlsconnection import TLSConnection
        self.sim = sim
        self.name = name
        self.sock = sock
        self.node = node
        with node:
            self.conn = TLSConnection(sock)
        self.op = None
        self.cur = None
        self.blocked = None
        self.history = []

    def start(self, desc, genfunc):
        """Begin an operation; genfunc() is called inside the node context so
        that eager code in non-generator wrappers sees the right seams."""
        assert self.op is None, "one operation at a time per endpoint"
        out = Outcome(desc)
        out.t0 = self.sim.tick()
        out.kind = "pending"
        self.cur = out
        self.history.append(out)
        try:
            with self.node:
                gen = genfunc()
        except BaseException as e:      # raised before becoming a generator
            if not isinstance(e, Exception):
                raise
            out.kind = "exc"
            out.exc = e
            out.t1 = self.sim.tick()
            out.post = self._post()
            self.cur = None
            return out
        if gen is None or not hasattr(gen, "__next__"):
            out.kind = "ok"
            out.value = gen
            out.t1 = self.sim.tick()
            out.post = self._post()
            self.cur = None
            return out
        self.op = gen
        self.blocked = None
        return out

    def runnable(self):
        if self.op is None:
            return False
        if self.blocked == "r":
            return self.sock.closed or self.sock.inp.readable() or \
                self.sock.dead is not None or \
                ("recv", self.sock.calls["recv"]) in self.sock.fault_plan
        return True

    def step(self):
        out = self.cur
        out.steps += 1
        self.sim.tick()
        try:
            with self.node:
                r = next(self.op)
                while not (type(r) is int and (r == 0 or r == 1)):
                    # a result value; the generator is expected to end now
                    out.value = r
                    out.nvalues += 1
                    r = next(self.op)
        except StopIteration:
            out.kind = "ok"
            self._finish()
            return
        except (KeyboardInterrupt, SystemExit, kernel_abort):
            raise
        except BaseException as e:
            if not isinstance(e, Exception):
                raise       # the driver's wall-clock timeout, not an outcome
            if _TB:
                import traceback
                traceback.print_exc()
            out.kind = "exc"
            out.exc = e
            self._finish()
            return
        self.blocked = "r" if r == 0 else "w"

    def _finish(self):
        self.cur.t1 = self.sim.tick()
        self.cur.post = self._post()
        self.op = None
        self.cur = None
        self.blocked = None

    def _post(self):
        c = self.conn
        return (c.closed, None if c.session is None
                else bool(c.session.resumable))

    def cancel(self):
        """Abandon the active operation (generator .close())."""
        if self.op is not None:
            try:
                self.op.close()
            except BaseException:
                pass
            self.cur.kind = "cancelled"
            self._finish()


class Lane(Endpoint):
    """A second operation lane of an existing endpoint: the application keeps
    a writer going next to a parked reader on the SAME connection (full
    duplex use of the generator API / a reader and a writer thread)."""

    def __init__(self, ep):
        self.sim = ep.sim
        self.name = ep.name
        self.sock = ep.sock
        self.node = ep.node
        self.conn = ep.conn
        self.op = None
        self.cur = None
        self.blocked = None
        self.history = []
        ep.sim.eps.append(self)


class kernel_abort(Exception):
    pass


class Sim(object):
    """Steps endpoints of one or more Links under a Chooser."""

    def __init__(self, chooser, seed=0, max_steps=20000, sched="random"):
        self.chooser = chooser
        self.seed = seed
        self.seq = 0
        self.steps = 0
        self.max_steps = max_steps
        self.eps = []
        self.links = []
        self.sched = sched
        self.order = hashlib.sha256()
        self.invariants = []
        self.status = None
        self.stats = {}

    def tick(self):
        self.seq += 1
        return self.seq

    def add_link(self, link):
        self.links.append(link)

    def endpoint(self, name, sock, node=None):
        if node is None:
            node = kernel.Node(name, self.seed)
        ep = Endpoint(self, name, sock, node)
        self.eps.append(ep)
        return ep

    def _deliver(self, force=False):
        for l in self.links:
            l.deliver(force)

    def in_flight(self):
        return sum(p.in_flight() for l in self.links for p in l.pipes())

    def run(self, until=None):
        """Step until no endpoint has an active op (status 'idle'), nothing
        can move ('stuck'), the step cap fires ('cap'), or until() is true."""
        while True:
            if until is not None and until():
                self.status = "until"
                return self.status
            active = [e for e in self.eps if e.op is not None]
            if not active:
                self.status = "idle"
                return self.status
            run = [e for e in active if e.runnable()]
            if not run:
                if self.in_flight():
                    self._deliver(force=True)
                    continue
                self.status = "stuck"
                return self.status
            if self.steps >= self.max_steps:
                self.status = "cap"
                return self.status
            if len(run) > 1 and self.sched == "random":
                ep = run[self.chooser.draw(len(run), "sched")]
            else:
                ep = run[0] if self.sched != "rr" else \
                    run[self.steps % len(run)]
            self.steps += 1
            self.order.update(ep.name.encode())
            ep.step()
            self._deliver()
            for inv in self.invariants:
                inv(self)
