"""Observation taps (instance-level wrappers that only append to logs)."""

from . import net

CT_CCS, CT_ALERT, CT_HS, CT_APP, CT_HB = 20, 21, 22, 23, 24
STAMP = [0]


class SendTap(object):
    """Wraps RecordLayer.sendRecord of one connection: logs (content type,
    plaintext length) of every record handed to protection."""

    def __init__(self, conn):
        self.conn = conn
        self.records = []          # [ctype, plain_len, user_limit, app_phase]
        self.user_limit = 16384
        self.app_phase = False
        self.split_seen = False
        rl = conn._recordLayer
        orig = rl.sendRecord
        tap = self

        def sendRecord(msg):
            data = msg.write()
            STAMP[0] += 1
            tap.records.append([msg.contentType, len(data), tap.user_limit,
                                tap.app_phase, bytes(data)
                                if tap.keep_plain else None, STAMP[0]])
            return orig(msg)
        self.keep_plain = False
        rl.sendRecord = sendRecord

    def mark_app_phase(self):
        self.app_phase = True

    def check(self, suite, ver, lim, pipe, probes, allow_tail=False):
        """Record-limit invariant on tap + wire. Returns [(rule,sig,msg)].
        allow_tail: the run stopped with an operation in flight, so the last
        record handed to the record layer may not be (completely) written."""
        out = []
        rp = net.RecordParser()
        wire = rp.feed(bytes(pipe.sent_log))
        if allow_tail and len(self.records) == len(wire) + 1:
            self.records = self.records[:-1]
            rp.buf = bytearray()
        if len(wire) != len(self.records) or rp.buf:
            raise RuntimeError("tap/wire record count mismatch: %d vs %d "
                               "(+%d stray bytes)" % (len(self.records),
                                                      len(wire), len(rp.buf)))
        protected = False
        for i, (rec, w) in enumerate(zip(self.records, wire)):
            ctype, plen, ulim, app = rec[:4]
            wtype, wver, body = w
            if ver < (3, 4):
                if protected:
                    if plen > lim:
                        out.append(("record_limit", "over_negotiated",
                                    "record #%d type %d carries %d plaintext "
                                    "bytes, limit in force %d" %
                                    (i, ctype, plen, lim)))
                    if plen == lim:
                        probes["limit_hit"] = 1
                if ctype == CT_CCS:
                    protected = True
                exp_type = ctype
            else:
                is_prot = wtype == CT_APP
                if is_prot:
                    inner = len(body) - suite.tag_len
                    if inner > lim:
                        out.append(("record_limit", "over_negotiated",
                                    "TLS 1.3 record #%d has %d bytes of inner "
                                    "plaintext, limit in force %d" %
                                    (i, inner, lim)))
                    if inner == lim:
                        probes["limit_hit"] = 1
                    if inner < plen + 1:
                        out.append(("record_limit", "wire_lt_tap",
                                    "record #%d: wire inner %d < data %d + 1"
                                    % (i, inner, plen)))
                    if inner > plen + 1:
                        probes["padding_seen"] = 1
            if app and ctype == CT_APP:
                if plen > ulim:
                    out.append(("record_limit", "over_user_recordsize",
                                "application record #%d carries %d bytes, "
                                "recordSize was %d" % (i, plen, ulim)))
                if plen > 2 ** 14:
                    out.append(("record_limit", "over_protocol_max",
                                "application record #%d carries %d bytes" %
                                (i, plen)))
                if plen == ulim and ulim < 16384:
                    probes["limit_hit"] = 1
                if plen == 1:
                    self.split_seen = True
        return out


class RecvTap(object):
    """Wraps RecordLayer.recvRecord: logs every record the receiver accepted
    as (content type, plaintext bytes)."""

    def __init__(self, conn):
        self.accepted = []
        self.stamps = []
        rl = conn._recordLayer
        orig = rl.recvRecord
        tap = self

        def recvRecord():
            for r in orig():
                if r in (0, 1):
                    yield r
                else:
                    header, parser = r
                    STAMP[0] += 1
                    tap.accepted.append((header.type, bytes(parser.bytes)))
                    tap.stamps.append(STAMP[0])
                    yield r
        rl.recvRecord = recvRecord


class MsgTap(object):
    """Wraps _sendMsg / _queue_message: message objects sent (e.g. alerts,
    even when they go out encrypted)."""

    def __init__(self, conn):
        self.msgs = []
        tap = self
        orig_send = conn._sendMsg
        orig_q = conn._queue_message

        def _sendMsg(msg, *a, **kw):
            tap.msgs.append(tap._desc(msg))
            return orig_send(msg, *a, **kw)

        def _queue_message(msg):
            tap.msgs.append(tap._desc(msg))
            return orig_q(msg)
        conn._sendMsg = _sendMsg
        conn._queue_message = _queue_message

    @staticmethod
    def _desc(msg):
        ct = getattr(msg, "contentType", None)
        d = {"ct": ct, "cls": type(msg).__name__}
        if ct == CT_ALERT:
            d["level"] = getattr(msg, "level", None)
            d["description"] = getattr(msg, "description", None)
        if ct == CT_HS:
            d["hs"] = getattr(msg, "handshakeType", None)
        return d

    def alerts(self):
        return [m for m in self.msgs if m["ct"] == CT_ALERT]

    def fatal_alerts(self):
        return [m for m in self.alerts() if m.get("level") == 2]


class AlertWriteFault(object):
    """Transport fault placed at one particular write: from the moment the
    connection hands a (fatal) alert record to its record layer, the sends of
    its socket fail with `kind`.  'timeout' is transient (only while that
    record is being written), 'epipe' / 'reset' persist.  What the endpoint
    received stays readable."""

    def __init__(self, conn, sock, kind, fatal_only=True):
        self.fired = 0
        rl = conn._recordLayer
        orig = rl.sendRecord
        tap = self

        def sendRecord(msg):
            hit = msg.contentType == 21 and not (
                fatal_only and bytes(msg.write()[:1]) != b"\x02")
            if not hit:
                for r in orig(msg):
                    yield r
                return
            tap.fired += 1
            sock.peer_gone = kind
            try:
                for r in orig(msg):
                    yield r
            finally:
                if kind == "timeout":
                    sock.peer_gone = None
        rl.sendRecord = sendRecord
