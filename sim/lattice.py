"""The restriction lattice of HandshakeSettings (C03 / C19) and a deliberately
conservative "these two surely connect" predicate.

Everything here is written against the *documented* meaning of the settings,
not against tlslite's selection code."""

from . import scen

ALL_CIPHERS = ["chacha20-poly1305", "aes256gcm", "aes128gcm", "aes256ccm",
               "aes128ccm", "aes256", "aes128", "3des",
               "chacha20-poly1305_draft00", "aes128ccm_8", "aes256ccm_8",
               "rc4", "null"]
DEF_CIPHERS = ALL_CIPHERS[:8]
ALL_MACS = ["sha", "sha256", "sha384", "aead", "md5"]
DEF_MACS = ALL_MACS[:4]
ALL_KX = ["ecdhe_ecdsa", "rsa", "dhe_rsa", "ecdhe_rsa", "srp_sha",
          "srp_sha_rsa", "ecdh_anon", "dh_anon", "dhe_dsa"]
CURVES = ["x25519", "x448", "secp384r1", "secp256r1", "secp521r1",
          "brainpoolP512r1", "brainpoolP384r1", "brainpoolP256r1",
          "brainpoolP256r1tls13", "brainpoolP384r1tls13",
          "brainpoolP512r1tls13"]
MAIN_CURVES = ["x25519", "x448", "secp384r1", "secp256r1", "secp521r1"]
DH_GROUPS = ["ffdhe2048", "ffdhe3072", "ffdhe4096", "ffdhe6144", "ffdhe8192"]
HASHES = ["sha512", "sha384", "sha256", "sha224", "sha1"]
VERS = [(3, 0), (3, 1), (3, 2), (3, 3), (3, 4)]
GROUP_IDS = {23: "secp256r1", 24: "secp384r1", 25: "secp521r1",
             29: "x25519", 30: "x448", 26: "brainpoolP256r1",
             27: "brainpoolP384r1", 28: "brainpoolP512r1",
             31: "brainpoolP256r1tls13", 32: "brainpoolP384r1tls13",
             33: "brainpoolP512r1tls13",
             256: "ffdhe2048", 257: "ffdhe3072", 258: "ffdhe4096",
             259: "ffdhe6144", 260: "ffdhe8192", 22: "secp256k1"}
HASH_IDS = {1: "md5", 2: "sha1", 3: "sha224", 4: "sha256", 5: "sha384",
            6: "sha512"}

DEFAULTS = {
    "minVersion": [3, 1], "maxVersion": [3, 4],
    "cipherNames": DEF_CIPHERS, "macNames": DEF_MACS,
    "keyExchangeNames": ALL_KX, "eccCurves": CURVES, "dhGroups": DH_GROUPS,
    "keyShares": ["secp256r1", "x25519"],
    "rsaSigHashes": HASHES, "ecdsaSigHashes": HASHES, "dsaSigHashes": HASHES,
    "rsaSchemes": ["pss", "pkcs1"],
    "more_sig_schemes": ["Ed25519", "Ed448",
                         "ecdsa_brainpoolP512r1tls13_sha512",
                         "ecdsa_brainpoolP384r1tls13_sha384",
                         "ecdsa_brainpoolP256r1tls13_sha256"],
    "minKeySize": 1023, "maxKeySize": 8193,
    "useEncryptThenMAC": True, "useExtendedMasterSecret": True,
    "requireExtendedMasterSecret": False, "record_size_limit": 16385,
}


def _subset(ch, pool, label, keep_order_p=2):
    """Random non-empty sub-list; draw 0 = full list in original order."""
    mode = ch.draw(5, label + ".m")
    if mode == 0:
        return list(pool)
    n = len(pool)
    mask = 1 + ch.draw((1 << n) - 1, label + ".mask")
    out = [p for i, p in enumerate(pool) if mask >> i & 1]
    if mode == 1 and len(out) > 1:
        k = ch.draw(len(out), label + ".rot")
        out = out[k:] + out[:k]
    elif mode == 2:
        out = out[:1]
    return out


def draw_settings(ch, label, legacy=True):
    """Overrides dict (JSON-able).  Draw 0 everywhere = library defaults."""
    d = {}
    pool_c = ALL_CIPHERS if legacy else DEF_CIPHERS
    if ch.draw(3, label + ".ver?") == 1:
        lo = ch.draw(5, label + ".vlo")
        hi = lo + ch.draw(5 - lo, label + ".vhi")
        d["minVersion"] = list(VERS[lo])
        d["maxVersion"] = list(VERS[hi])
    if ch.draw(3, label + ".ciph?") == 1:
        d["cipherNames"] = _subset(ch, pool_c, label + ".ciph")
    if ch.draw(3, label + ".mac?") == 1:
        d["macNames"] = _subset(ch, ALL_MACS, label + ".mac")
    if ch.draw(3, label + ".kx?") == 1:
        d["keyExchangeNames"] = _subset(ch, ALL_KX, label + ".kx")
    if ch.draw(3, label + ".curves?") == 1:
        d["eccCurves"] = _subset(ch, MAIN_CURVES, label + ".curves")
        d["keyShares"] = [c for c in ("secp256r1", "x25519")
                          if c in d["eccCurves"]]
        if ch.draw(2, label + ".ks"):
            d["keyShares"] = d["eccCurves"][:1]
    if ch.draw(4, label + ".dhg?") == 1:
        d["dhGroups"] = _subset(ch, DH_GROUPS, label + ".dhg")
        ks = d.get("keyShares", ["secp256r1", "x25519"])
        d["keyShares"] = [k for k in ks]
    if ch.draw(3, label + ".rsah?") == 1:
        d["rsaSigHashes"] = _subset(ch, HASHES, label + ".rsah")
    if ch.draw(3, label + ".ech?") == 1:
        d["ecdsaSigHashes"] = _subset(ch, HASHES, label + ".ech")
    if ch.draw(4, label + ".dsah?") == 1:
        d["dsaSigHashes"] = _subset(ch, HASHES, label + ".dsah")
    if ch.draw(4, label + ".rsas?") == 1:
        d["rsaSchemes"] = _subset(ch, ["pss", "pkcs1"], label + ".rsas")
    if ch.draw(5, label + ".more?") == 1:
        d["more_sig_schemes"] = _subset(ch, ["Ed25519", "Ed448"],
                                        label + ".more")
    if ch.draw(4, label + ".ksz?") == 1:
        lo = [1023, 512, 1024, 2048, 2049, 4096][ch.draw(6, label + ".kmin")]
        hi = [8193, 2048, 2047, 4096, 16384, 1024][ch.draw(6, label + ".kmax")]
        if hi < lo:
            hi = lo
        d["minKeySize"], d["maxKeySize"] = lo, hi
    if ch.draw(4, label + ".etm?") == 1:
        d["useEncryptThenMAC"] = False
    e = ch.draw(6, label + ".ems?")
    if e == 1:
        d["useExtendedMasterSecret"] = False
    elif e == 2:
        d["requireExtendedMasterSecret"] = True
    cc = ch.draw(8, label + ".ccomp?")
    if cc in (1, 2):
        from tlslite import handshakesettings as _hs
        recv = list(_hs.ALL_COMPRESSION_ALGOS_RECEIVE)
        opts = [list(reversed(recv)), recv[-1:], recv[:1], []]
        d["certificate_compression_receive"] = opts[
            ch.draw(len(opts), label + ".ccrecv")]
    elif cc == 3:
        d["certificate_compression_send"] = [[], ["zlib"]][
            ch.draw(2, label + ".ccsend")]
    if ch.draw(4, label + ".rsl?") == 1:
        d["record_size_limit"] = [None, 64, 512, 16384][
            ch.draw(4, label + ".rsl")]
    return d


def fix_keyshares(over):
    """Keep the coupled keyShares setting valid after eccCurves/dhGroups
    were restricted (keyShares must name enabled groups)."""
    ks = over.get("keyShares", DEFAULTS["keyShares"])
    enabled = eff(over, "eccCurves") + eff(over, "dhGroups")
    good = [k for k in ks if k in enabled]
    if good != list(ks):
        over["keyShares"] = good
    return over


def eff(over, key):
    return over.get(key, DEFAULTS[key])


def vrange(over):
    return tuple(eff(over, "minVersion")), tuple(eff(over, "maxVersion"))


def common_versions(c, s):
    clo, chi = vrange(c)
    slo, shi = vrange(s)
    return [v for v in VERS if clo <= v <= chi and slo <= v <= shi]


def macs_for(over, ver):
    m = eff(over, "macNames")
    return m


def suite_allowed(suite, over, ver, role):
    """Is `suite` inside the policy expressed by the raw settings?"""
    if suite.cipher not in eff(over, "cipherNames"):
        return "cipher %s not in cipherNames" % suite.cipher
    if suite.mac not in eff(over, "macNames"):
        return "mac %s not in macNames" % suite.mac
    if not suite.tls13 and suite.kx_setting not in eff(over,
                                                       "keyExchangeNames"):
        return "key exchange %s not in keyExchangeNames" % suite.kx_setting
    lo, hi = vrange(over)
    if not lo <= tuple(ver) <= hi:
        return "version %s outside [%s, %s]" % (ver, lo, hi)
    return None


SERVER_KEY_INFO = {
    # name -> (type, bits, curve, cert-signature (hash, alg))
    "rsa": ("rsa", 2048, None, ("sha256", "rsa")),
    "ecdsa": ("ecdsa", 256, "secp256r1", ("sha1", "ecdsa")),
    "ecdsa384": ("ecdsa", 384, "secp384r1", ("sha256", "ecdsa")),
    "ecdsa521": ("ecdsa", 521, "secp521r1", ("sha256", "ecdsa")),
    "ed25519": ("Ed25519", 253, None, None),
    "ed448": ("Ed448", 446, None, None),
    "dsa": ("dsa", 2048, None, ("sha256", "dsa")),
    "rsapss": ("rsa-pss", 2048, None, ("pss", "rsa")),
}


def surely_compatible(c, s, flavour, skey):
    """Conservative: True only when a handshake *must* succeed.  Returns
    (bool, reason / witness)."""
    cv = common_versions(c, s)
    if not cv:
        return False, "no common version"
    v = cv[-1]
    if flavour != "cert" or skey not in ("rsa", "ecdsa"):
        return False, "flavour not modelled"
    # keep to the simple, well-defined part of the lattice
    for side in (c, s):
        if eff(side, "minKeySize") > 1024 and skey == "rsa" and \
                eff(side, "minKeySize") > 2048:
            return False, "key size window"
        if eff(side, "maxKeySize") < 2048 and skey == "rsa":
            return False, "key size window"
    if eff(c, "requireExtendedMasterSecret") and \
            not eff(s, "useExtendedMasterSecret") and v < (3, 4):
        return False, "EMS required, not offered"
    if eff(s, "requireExtendedMasterSecret") and \
            not eff(c, "useExtendedMasterSecret") and v < (3, 4):
        return False, "EMS required, not offered"
    S = scen.all_suites()
    ccurves = [x for x in eff(c, "eccCurves") if x in MAIN_CURVES]
    scurves = [x for x in eff(s, "eccCurves") if x in MAIN_CURVES]
    common_curves = [x for x in ccurves if x in scurves]
    if v == (3, 4):
        suites = [x for x in S.values() if x.tls13 and
                  x.cipher in eff(c, "cipherNames") and
                  x.cipher in eff(s, "cipherNames")]
        if not suites:
            return False, "no common TLS 1.3 suite"
        if "aead" not in eff(c, "macNames") or \
                "aead" not in eff(s, "macNames"):
            return False, "aead not in macNames"
        # keyExchangeNames is documented for <= TLS 1.2 suites; whether a
        # client that disables every (EC)DHE name still wants TLS 1.3 is not
        # defined -> don't know
        if not [k for k in eff(c, "keyExchangeNames")
                if k.startswith(("ecdhe", "dhe"))]:
            return False, "client disabled every (EC)DHE key exchange name"
        if not [k for k in eff(s, "keyExchangeNames")
                if k.startswith(("ecdhe", "dhe"))]:
            return False, "server disabled every (EC)DHE key exchange name"
        common_ff = [g for g in eff(c, "dhGroups") if g in eff(s, "dhGroups")
                     and g.startswith("ffdhe")]
        if not common_curves and not common_ff:
            return False, "no common group"
        if skey == "rsa":
            if "pss" not in eff(c, "rsaSchemes") or \
                    "pss" not in eff(s, "rsaSchemes"):
                return False, "no pss"
            hs = [h for h in ("sha256", "sha384", "sha512")
                  if h in eff(c, "rsaSigHashes") and
                  h in eff(s, "rsaSigHashes")]
            if not hs:
                return False, "no common rsa hash"
            # the certificate itself is signed sha256+rsa(pkcs1)
            if "sha256" not in eff(c, "rsaSigHashes") or \
                    "pkcs1" not in eff(c, "rsaSchemes"):
                return False, "cert signature alg not advertised"
        else:
            if "sha256" not in eff(c, "ecdsaSigHashes") or \
                    "sha256" not in eff(s, "ecdsaSigHashes"):
                return False, "no ecdsa sha256"
            if "sha1" not in eff(c, "ecdsaSigHashes"):
                return False, "cert signature alg (ecdsa-sha1) not advertised"
            # (TLS 1.3: supported_groups says nothing about certificate
            # curves, signature_algorithms does - RFC 8446 4.2.7 / 4.2.3)
        return True, "tls13"
    # <= TLS 1.2
    if v == (3, 0):
        return False, "sslv3 not modelled"
    cands = []
    for x in S.values():
        if x.tls13 or not x.defined_in(v) or x.id in scen.NOT_OFFERED:
            continue
        if x.auth != skey:
            continue
        if x.kx == "srp":
            continue
        if suite_allowed(x, c, v, "c") or suite_allowed(x, s, v, "s"):
            continue
        if x.kx == "dhe":
            if eff(c, "dhGroups") != DH_GROUPS or \
                    eff(s, "dhGroups") != DH_GROUPS or \
                    eff(c, "maxKeySize") < 8192 or \
                    eff(c, "minKeySize") > 2048:
                continue
        if x.kx == "ecdhe" and not common_curves:
            continue
        cands.append(x)
    if not cands:
        return False, "no candidate suite"
    # the server picks by *its* cipher order among all shared suites; if any
    # shared suite could be picked that needs something missing we say
    # "don't know": require every shared suite of this auth type to be fine
    allshared = [x for x in S.values() if not x.tls13 and x.defined_in(v)
                 and x.id not in scen.NOT_OFFERED
                 and not suite_allowed(x, c, v, "c")
                 and not suite_allowed(x, s, v, "s")
                 and scen.suite_flavour(x) is not None]
    for x in allshared:
        if x not in cands:
            return False, "a shared suite is not surely usable: " + x.name
    if v == (3, 3):
        if skey == "rsa":
            hs = [h for h in eff(c, "rsaSigHashes")
                  if h in eff(s, "rsaSigHashes")]
            ps = [p for p in eff(c, "rsaSchemes")
                  if p in eff(s, "rsaSchemes")]
            # a usable (padding, hash) pair must exist: PSS is only defined
            # with SHA-256/384/512
            usable = [(p, h) for p in ps for h in hs
                      if p == "pkcs1" or h in ("sha256", "sha384", "sha512")]
            if not usable:
                return False, "no common rsa signature scheme"
            # the server must be able to build *some* scheme from its own
            # lists at all (it refuses the handshake otherwise, even for
            # RSA key transport)
            if "sha256" not in eff(c, "rsaSigHashes") or \
                    "pkcs1" not in eff(c, "rsaSchemes"):
                return False, "cert signature alg not advertised"
            # kx=rsa needs no signature but keep it simple
        else:
            hs = [h for h in eff(c, "ecdsaSigHashes")
                  if h in eff(s, "ecdsaSigHashes")]
            if not hs:
                return False, "no common ecdsa hash"
            if "sha1" not in eff(c, "ecdsaSigHashes"):
                return False, "cert signature alg not advertised"
    if skey == "ecdsa" and ("secp256r1" not in eff(c, "eccCurves") or
                            "secp256r1" not in eff(s, "eccCurves")):
        return False, "cert curve not enabled"
    return True, "legacy:%s" % (v,)
