"""What an endpoint believes after a handshake (comparable, JSON-able)."""

import hashlib


def _h(b):
    if b is None:
        return None
    return hashlib.sha256(bytes(b)).hexdigest()[:24] + ":%d" % len(b)


def chain_digest(chain):
    if chain is None:
        return None
    try:
        return [_h(x.bytes) for x in chain.x509List]
    except Exception:
        return "unreadable"


def view(conn, exporter=True):
    """Snapshot of negotiated parameters; take it right after the handshake
    (conn.version is reset by _shutdown)."""
    s = conn.session
    d = {"version": list(conn.version), "closed": conn.closed,
         "resumed": conn.resumed,
         "etm_conn": conn.encryptThenMAC,
         "cipher_name": conn.getCipherName(),
         "send_limit": conn._send_record_limit,
         "recv_limit": conn._recv_record_limit,
         "next_proto": bytes(conn.next_proto).decode("latin1")
         if getattr(conn, "next_proto", None) else None,
         "heartbeat": (conn.heartbeat_supported, conn.heartbeat_can_send,
                       conn.heartbeat_can_receive),
         "group": getattr(conn, "ecdhCurve", None),
         }
    if s is not None:
        d.update({
            "suite": s.cipherSuite,
            "master": _h(s.masterSecret),
            "cl_app": _h(s.cl_app_secret),
            "sr_app": _h(s.sr_app_secret),
            "exporter_ms": _h(s.exporterMasterSecret),
            "resumption_ms": _h(s.resumptionMasterSecret),
            "ems": s.extendedMasterSecret,
            "etm": s.encryptThenMAC,
            "alpn": bytes(s.appProto).decode("latin1") if s.appProto else None,
            "sni": s.serverName if isinstance(s.serverName, str) else
            (bytes(s.serverName).decode("latin1") if s.serverName else
             s.serverName),
            "srp_user": s.srpUsername if isinstance(s.srpUsername, str) or
            s.srpUsername is None else bytes(s.srpUsername).decode("latin1"),
            "server_chain": chain_digest(s.serverCertChain),
            "client_chain": chain_digest(s.clientCertChain),
            "resumable": s.resumable,
            "session_id": _h(s.sessionID),
        })
        if exporter and not conn.closed:
            try:
                d["exporter"] = [
                    _h(conn.keyingMaterialExporter(bytearray(b"EXPERIMENTAL-x"), 20)),
                    _h(conn.keyingMaterialExporter(bytearray(b"EXPORTER-test"), 64))]
            except Exception as e:
                d["exporter"] = "exc:" + type(e).__name__
    return d


# Fields both ends must agree on (C03/C04).  'send_limit'/'recv_limit' are
# compared crosswise by the caller.
AGREE = ("version", "suite", "master", "cl_app", "sr_app", "exporter_ms",
         "resumption_ms", "ems", "etm", "etm_conn", "alpn", "next_proto",
         "sni", "server_chain", "client_chain", "exporter", "cipher_name",
         "srp_user")


def disagreements(vc, vs, fields=AGREE):
    out = []
    for f in fields:
        a, b = vc.get(f), vs.get(f)
        if f == "sni":
            # the server records b'' / '' when no SNI was sent
            if not a and not b:
                continue
        if f == "srp_user":
            if not a and not b:
                continue
        if f == "alpn" or f == "next_proto":
            if not a and not b:
                continue
        if a != b:
            out.append((f, a, b))
    if vc.get("send_limit") != vs.get("recv_limit"):
        out.append(("c.send_limit/s.recv_limit", vc.get("send_limit"),
                    vs.get("recv_limit")))
    if vc.get("recv_limit") != vs.get("send_limit"):
        out.append(("c.recv_limit/s.send_limit", vc.get("recv_limit"),
                    vs.get("send_limit")))
    return out
