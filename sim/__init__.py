"""Deterministic simulation kernel for tlslite-ng (see /verif/DESIGN.md §2)."""
