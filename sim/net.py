"""In-memory transport: Pipe, FakeSocket, record-aware wire view, MITM hook.

FakeSocket keeps the BSD semantics tlslite relies on: send() may accept a
prefix, recv(n) returns 1..n bytes or b'' at EOF, both may raise
EWOULDBLOCK/EAGAIN, ECONNRESET, EPIPE; after close() every call raises EBADF;
sendall() takes everything or raises.
"""

import errno
import socket


class RecordParser(object):
    """Incremental splitter of a TLS byte stream into records (5-byte header)."""

    def __init__(self):
        self.buf = bytearray()
        self.records = []      # (type, (maj, min), body bytes)
        self.offset = 0

    def feed(self, data):
        out = []
        self.buf += data
        while True:
            if len(self.buf) < 5:
                break
            ln = (self.buf[3] << 8) | self.buf[4]
            if len(self.buf) < 5 + ln:
                break
            rec = (self.buf[0], (self.buf[1], self.buf[2]),
                   bytes(self.buf[5:5 + ln]))
            del self.buf[:5 + ln]
            self.records.append(rec)
            out.append(rec)
        return out


def rec_bytes(typ, ver, body):
    return bytes([typ, ver[0], ver[1], len(body) >> 8, len(body) & 0xff]) \
        + bytes(body)


class Pipe(object):
    """One direction of the connection."""

    def __init__(self, name):
        self.name = name
        self.buf = bytearray()   # accepted from the sender, not yet read
        self.avail = 0           # deliverable prefix of buf
        self.eof = False         # sender closed its side
        self.reset = False       # reader will see ECONNRESET once drained
        self.wire_log = bytearray()   # everything put on the wire (post-MITM)
        self.sent_log = bytearray()   # everything the sender wrote (pre-MITM)
        self.mitm = None         # callable(bytes) -> bytes (may hold/alter)
        self.ideal = True        # deliver at once
        self.nread = 0
        self.on_write = None

    def write(self, data):
        data = bytes(data)
        self.sent_log += data
        if self.mitm is not None:
            data = self.mitm(data)
        if data:
            self.inject(data)

    def inject(self, data):
        self.wire_log += data
        self.buf += data
        if self.ideal:
            self.avail = len(self.buf)

    def in_flight(self):
        return len(self.buf) - self.avail

    def release(self, n=None):
        if n is None:
            self.avail = len(self.buf)
        else:
            self.avail = min(len(self.buf), self.avail + n)

    def read(self, n):
        n = min(n, self.avail)
        out = bytes(self.buf[:n])
        del self.buf[:n]
        self.avail -= n
        self.nread += n
        return out

    def readable(self):
        """Would a recv() on this pipe do something other than block?"""
        return self.avail > 0 or ((self.eof or self.reset) and
                                  len(self.buf) == 0)


class SockFault(Exception):
    pass


def _oserr(code):
    return socket.error(code, errno.errorcode.get(code, str(code)))


class FakeSocket(object):
    """Non-blocking socket stub over two Pipes.

    policy: 'ideal'  - full sends, full recvs, blocks only when empty
            'byte'   - one byte per recv, one byte per send
            'random' - chooser decides (short recv, partial send, would-block)
    fault_plan: {('recv'|'send'|'sendall', call_index): 'eof'|'reset'|'epipe'}
    """

    def __init__(self, name, inpipe, outpipe, chooser=None, policy="ideal",
                 stats=None, wb_budget=None):
        self.name = name
        self.inp = inpipe
        self.out = outpipe
        self.chooser = chooser
        self.policy = policy
        self.closed = False
        self.calls = {"recv": 0, "send": 0, "sendall": 0}
        self.calllog = []
        self.fault_plan = {}
        self.fired = []
        self.stats = stats if stats is not None else {}
        self.wb_budget = wb_budget
        self.timeout = None
        self.dead = None      # once a transport fault fired: its kind
        self.stall_after = None  # int: sends would-block once that many
        #                          bytes were written (until reset to None)
        self.close_fault = None  # 'reset': close() raises after closing
        self.peer_gone = None  # 'epipe'|'reset'|'timeout': sends fail, the
        #                        receive buffer stays readable (peer closed
        #                        after writing / transport stalled)

    def _count(self, k, n=1):
        self.stats[k] = self.stats.get(k, 0) + n

    # -- fault plan ---------------------------------------------------------
    def _planned(self, kind):
        idx = self.calls[kind]
        self.calls[kind] = idx + 1
        f = self.fault_plan.get((kind, idx))
        if f is None and self.dead is not None:
            f = self.dead
        if f is None:
            return None
        if self.dead is None:
            self.fired.append((kind, idx, f))
            self._count("fault_" + f)
            # the peer observes the failure too, after what was already sent
            self.out.eof = True
            if f == "reset":
                self.out.reset = True
        self.dead = f
        return f

    def _raise_fault(self, f, kind):
        if f == "eof":
            if kind == "recv":
                return b""
            raise _oserr(errno.EPIPE)
        if f == "reset":
            raise _oserr(errno.ECONNRESET)
        if f == "epipe":
            raise _oserr(errno.EPIPE)
        if f == "timeout":
            raise socket.timeout("timed out")
        raise AssertionError(f)

    # -- socket API ---------------------------------------------------------
    def send(self, data):
        if self.closed:
            raise _oserr(errno.EBADF)
        f = self._planned("send")
        if f is None and self.peer_gone:
            f = self.peer_gone
            self.fired.append(("send", self.calls["send"] - 1, f))
            self._count("fault_" + f)
        if f is not None:
            self.calllog.append(("send", len(data), f))
            return self._raise_fault(f, "send")
        n = len(data)
        if n == 0:
            self.calllog.append(("send", 0, 0))
            return 0
        take = n
        if self.stall_after is not None:
            room = self.stall_after - len(self.out.sent_log)
            if room <= 0:
                self._count("wouldblock_stall")
                self.calllog.append(("send", n, "wb"))
                raise _oserr(errno.EWOULDBLOCK)
            take = min(n, room)
            self.out.write(data[:take])
            self.calllog.append(("send", n, take))
            return take
        if self.policy == "byte":
            take = 1
        elif self.policy == "random":
            c = self.chooser
            v = c.draw(6, self.name + ".send")
            if v == 1 and self.wb_budget is not None and self.wb_budget.take():
                self._count("wouldblock_send")
                self.calllog.append(("send", n, "wb"))
                raise _oserr(errno.EWOULDBLOCK)
            elif v == 2 and n > 1:
                take = 1
            elif v == 3 and n > 5:
                take = 5
            elif v in (4, 5) and n > 1:
                take = 1 + c.draw(n - 1, self.name + ".sendn")
            if take < n:
                self._count("partial_send")
        self.out.write(data[:take])
        self.calllog.append(("send", n, take))
        return take

    def sendall(self, data):
        if self.closed:
            raise _oserr(errno.EBADF)
        f = self._planned("sendall")
        if f is None and self.peer_gone:
            f = self.peer_gone
            self.fired.append(("sendall", self.calls["sendall"] - 1, f))
            self._count("fault_" + f)
        if f is not None:
            self.calllog.append(("sendall", len(data), f))
            self._raise_fault(f, "send")
        self.out.write(data)
        self.calllog.append(("sendall", len(data), len(data)))
        return None

    def recv(self, n):
        if self.closed:
            raise _oserr(errno.EBADF)
        f = self._planned("recv")
        if f is not None:
            self.calllog.append(("recv", n, f))
            return self._raise_fault(f, "recv")
        inp = self.inp
        if inp.avail == 0:
            if len(inp.buf) == 0 and inp.reset:
                self.calllog.append(("recv", n, "reset"))
                raise _oserr(errno.ECONNRESET)
            if len(inp.buf) == 0 and inp.eof:
                self.calllog.append(("recv", n, "eof"))
                return b""
            self.calllog.append(("recv", n, "wb"))
            self._count("wouldblock_natural")
            raise _oserr(errno.EWOULDBLOCK)
        m = min(n, inp.avail)
        take = m
        if self.policy == "byte":
            take = 1
        elif self.policy == "random":
            c = self.chooser
            v = c.draw(7, self.name + ".recv")
            if v == 1 and self.wb_budget is not None and self.wb_budget.take():
                self._count("wouldblock_recv")
                self.calllog.append(("recv", n, "wb"))
                raise _oserr(errno.EAGAIN)
            elif v == 2:
                take = 1
            elif v == 3:
                take = min(m, 2)
            elif v == 4:
                take = min(m, 5)
            elif v in (5, 6) and m > 1:
                take = 1 + c.draw(m, self.name + ".recvn") % m
            if take < m:
                self._count("short_recv")
        data = inp.read(take)
        self.calllog.append(("recv", n, len(data)))
        return data

    def close(self):
        if not self.closed:
            self.closed = True
            self.out.eof = True
            self._tell_peer()
            if self.close_fault:
                # (socket.close() may report an error of the connection)
                self.fired.append(("close", 0, self.close_fault))
                self._count("fault_close_" + self.close_fault)
                raise _oserr(errno.ECONNRESET)

    def abort(self):
        """Crash: socket vanishes; peer sees reset after draining."""
        self.closed = True
        self.out.eof = True
        self.out.reset = True
        self._tell_peer()

    def _tell_peer(self):
        # opt-in (Link.epipe_after_close): once this end is gone, the other
        # end's sends fail with EPIPE while what was written before stays
        # readable
        p = getattr(self, "peer", None)
        if p is not None and getattr(self, "epipe_after_close", False):
            p.peer_gone = p.peer_gone or "epipe"

    def shutdown(self, how):
        self.out.eof = True

    def settimeout(self, v):
        self.timeout = v

    def gettimeout(self):
        return self.timeout

    def setsockopt(self, *a):
        return None

    def getsockname(self):
        return (self.name, 0)

    def getpeername(self):
        return ("peer-of-" + self.name, 0)

    def fileno(self):
        raise NotImplementedError()


class Link(object):
    """A client<->server connection: two pipes, two sockets."""

    def __init__(self, chooser=None, policy="ideal", stats=None,
                 wb_budget=None, delay_budget=None, names=("c", "s")):
        self.c2s = Pipe(names[0] + "2" + names[1])
        self.s2c = Pipe(names[1] + "2" + names[0])
        ideal = policy != "random"
        self.c2s.ideal = ideal
        self.s2c.ideal = ideal
        self.stats = stats if stats is not None else {}
        self.chooser = chooser
        self.delay_budget = delay_budget
        self.csock = FakeSocket(names[0], self.s2c, self.c2s, chooser, policy,
                                self.stats, wb_budget)
        self.ssock = FakeSocket(names[1], self.c2s, self.s2c, chooser, policy,
                                self.stats, wb_budget)
        self.csock.peer = self.ssock
        self.ssock.peer = self.csock

    def set_epipe_after_close(self, on=True):
        self.csock.epipe_after_close = on
        self.ssock.epipe_after_close = on

    def pipes(self):
        return (self.c2s, self.s2c)

    def deliver(self, force=False):
        """Network step: decide how much in-flight data becomes readable."""
        for p in (self.c2s, self.s2c):
            fl = p.in_flight()
            if fl <= 0:
                continue
            if force or p.ideal or self.chooser is None:
                p.release()
                continue
            v = self.chooser.draw(4, "net." + p.name)
            if v == 0:
                p.release()
            elif v == 1:
                if self.delay_budget is not None and self.delay_budget.take():
                    self.stats["delay"] = self.stats.get("delay", 0) + 1
                else:
                    p.release()
            else:
                k = 1 + self.chooser.draw(fl, "net." + p.name + ".n")
                p.release(k)
                if k < fl:
                    self.stats["partial_delivery"] = \
                        self.stats.get("partial_delivery", 0) + 1
