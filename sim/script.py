"""Executing an operation script on two endpoints under the Sim loop."""


def run_script(sim, eps, script, op_gen):
    """script: list of [who, kind, ...]; each endpoint executes its own
    subsequence in order, the scheduler interleaves the two.  op_gen(ep, op)
    returns a zero-arg callable producing the generator (or an immediate
    value).  Returns the final sim status."""
    q = {w: [o for o in script if o[0] == w] for w in eps}

    def feed():
        for w in sorted(eps):
            while eps[w].op is None and q[w]:
                op = q[w].pop(0)
                eps[w].start(tuple(op[1:]), op_gen(eps[w], op))

    def more():
        return any(eps[w].op is None and q[w] for w in eps)

    feed()
    while True:
        st = sim.run(until=more)
        if st == "until":
            feed()
            continue
        return st
