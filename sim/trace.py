"""Where (innermost tlslite frame) an exception was raised."""
import os
import traceback


def where(exc):
    tb = traceback.extract_tb(exc.__traceback__)
    for fr in reversed(tb):
        if "tlslite" in fr.filename:
            return "%s:%s" % (os.path.basename(fr.filename), fr.name)
    if tb:
        return "%s:%s" % (os.path.basename(tb[-1].filename), tb[-1].name)
    return "?"
