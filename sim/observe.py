"""What was negotiated, read off the wire / plaintext taps (not from tlslite's
own attributes)."""

from . import net
from .lattice import GROUP_IDS, HASH_IDS


def split_hs(datas):
    buf = b"".join(datas)
    out = []
    i = 0
    while i + 4 <= len(buf):
        ln = int.from_bytes(buf[i + 1:i + 4], "big")
        if i + 4 + ln > len(buf):
            break
        out.append(buf[i:i + 4 + ln])
        i += 4 + ln
    return out


def parse_exts(b):
    out = {}
    i = 0
    while i + 4 <= len(b):
        t = int.from_bytes(b[i:i + 2], "big")
        ln = int.from_bytes(b[i + 2:i + 4], "big")
        out[t] = b[i + 4:i + 4 + ln]
        i += 4 + ln
    return out


def parse_server_hello(m):
    """m = full handshake message bytes (type 2)."""
    d = {}
    body = m[4:]
    d["legacy_version"] = (body[0], body[1])
    d["random"] = bytes(body[2:34])
    sl = body[34]
    d["session_id"] = bytes(body[35:35 + sl])
    o = 35 + sl
    d["suite"] = int.from_bytes(body[o:o + 2], "big")
    d["compression"] = body[o + 2]
    o += 3
    d["ext"] = {}
    if o + 2 <= len(body):
        el = int.from_bytes(body[o:o + 2], "big")
        d["ext"] = parse_exts(body[o + 2:o + 2 + el])
    d["version"] = d["legacy_version"]
    if 43 in d["ext"] and len(d["ext"][43]) == 2:
        d["version"] = (d["ext"][43][0], d["ext"][43][1])
    if 51 in d["ext"] and len(d["ext"][51]) >= 2:
        d["key_share_group"] = int.from_bytes(d["ext"][51][:2], "big")
    return d


def parse_client_hello(m):
    d = {}
    body = m[4:]
    d["legacy_version"] = (body[0], body[1])
    d["random"] = bytes(body[2:34])
    sl = body[34]
    d["session_id"] = bytes(body[35:35 + sl])
    o = 35 + sl
    cl = int.from_bytes(body[o:o + 2], "big")
    d["suites"] = [int.from_bytes(body[o + 2 + i:o + 4 + i], "big")
                   for i in range(0, cl, 2)]
    o += 2 + cl
    ml = body[o]
    o += 1 + ml
    d["ext"] = {}
    if o + 2 <= len(body):
        el = int.from_bytes(body[o:o + 2], "big")
        d["ext"] = parse_exts(body[o + 2:o + 2 + el])
    return d


def parse_ske(m, suite, ver):
    """ServerKeyExchange of a (EC)DHE suite, TLS <= 1.2."""
    d = {}
    b = m[4:]
    o = 0
    if suite.kx == "ecdhe":
        d["curve_type"] = b[0]
        d["group"] = int.from_bytes(b[1:3], "big")
        pl = b[3]
        o = 4 + pl
    elif suite.kx == "dhe":
        pl = int.from_bytes(b[0:2], "big")
        d["dh_p_bits"] = int.from_bytes(b[2:2 + pl], "big").bit_length()
        o = 2 + pl
        gl = int.from_bytes(b[o:o + 2], "big")
        o += 2 + gl
        yl = int.from_bytes(b[o:o + 2], "big")
        o += 2 + yl
    else:
        return d
    if suite.auth is not None and tuple(ver) >= (3, 3) and o + 2 <= len(b):
        d["sig_scheme"] = (b[o], b[o + 1])
    return d


def scheme_desc(sc):
    """(hash, sig) bytes -> (family, hash name, padding)"""
    h, s = sc
    if h == 8:
        if s in (4, 5, 6):
            return ("rsa", {4: "sha256", 5: "sha384", 6: "sha512"}[s], "pss")
        if s in (9, 10, 11):
            return ("rsa", {9: "sha256", 10: "sha384", 11: "sha512"}[s],
                    "pss")
        if s == 7:
            return ("Ed25519", None, None)
        if s == 8:
            return ("Ed448", None, None)
        if s in (26, 27, 28):
            return ("ecdsa_bp13", {26: "sha256", 27: "sha384",
                                   28: "sha512"}[s], None)
        return ("unknown", None, None)
    fam = {1: "rsa", 2: "dsa", 3: "ecdsa"}.get(s, "unknown")
    return (fam, HASH_IDS.get(h), "pkcs1" if fam == "rsa" else None)


def observe(pair, tap_c, tap_s):
    """tap_*: SendTap with keep_plain.  Returns dict of wire facts."""
    out = {}
    cm = split_hs([r[4] for r in tap_c.records if r[0] == 22])
    sm = split_hs([r[4] for r in tap_s.records if r[0] == 22])
    out["client_msgs"] = [m[0] for m in cm]
    out["server_msgs"] = [m[0] for m in sm]
    chs = [m for m in cm if m[0] == 1]
    shs = [m for m in sm if m[0] == 2]
    if chs:
        out["ch"] = parse_client_hello(chs[-1])
        out["ch_first"] = parse_client_hello(chs[0])
    HRR = bytes.fromhex("cf21ad74e59a6111be1d8c021e65b891"
                        "c2a211167abb8c5e079e09e2c8a8339c")
    real = [m for m in shs if bytes(m[6:38]) != HRR]
    out["hrr"] = len(real) != len(shs)
    if real:
        out["sh"] = parse_server_hello(real[-1])
    out["ske"] = [m for m in sm if m[0] == 12]
    out["server_cv"] = [m for m in sm if m[0] == 15]
    out["client_cv"] = [m for m in cm if m[0] == 15]
    return out


def group_name(gid):
    return GROUP_IDS.get(gid, "group_%d" % gid)
