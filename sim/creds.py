"""Credentials from /verif/fixtures (copies of /repo/tests/*.pem)."""

import os

FIX = os.path.join(os.path.dirname(os.path.dirname(os.path.abspath(__file__))),
                   "fixtures")

_cache = {}

# name -> (cert file, key file)
SERVER = {
    "rsa": ("serverX509Cert.pem", "serverX509Key.pem"),
    "rsapss": ("serverRSAPSSCert.pem", "serverRSAPSSKey.pem"),
    "rsapss_sig": ("serverRSAPSSSigCert.pem", "serverRSAPSSSigKey.pem"),
    "ecdsa": ("serverECCert.pem", "serverECKey.pem"),
    "ecdsa384": ("serverP384ECCert.pem", "serverP384ECKey.pem"),
    "ecdsa521": ("serverP521ECCert.pem", "serverP521ECKey.pem"),
    "bp256": ("serverBrainpoolP256r1ECCert.pem",
              "serverBrainpoolP256r1ECKey.pem"),
    "bp384": ("serverBrainpoolP384r1ECCert.pem",
              "serverBrainpoolP384r1ECKey.pem"),
    "bp512": ("serverBrainpoolP512r1ECCert.pem",
              "serverBrainpoolP512r1ECKey.pem"),
    "ed25519": ("serverEd25519Cert.pem", "serverEd25519Key.pem"),
    "ed448": ("serverEd448Cert.pem", "serverEd448Key.pem"),
    "dsa": ("serverDSACert.pem", "serverDSAKey.pem"),
    "rsa_nonca": ("serverRSANonCACert.pem", "serverRSANonCAKey.pem"),
    "ecdsa_nonca": ("serverECDSANonCACert.pem", "serverECDSANonCAKey.pem"),
}
CLIENT = {
    "rsa": ("clientX509Cert.pem", "clientX509Key.pem"),
    "ecdsa": ("clientECCert.pem", "clientECKey.pem"),
    "ed25519": ("clientEd25519Cert.pem", "clientEd25519Key.pem"),
    "dsa": ("clientDSACert.pem", "clientDSAKey.pem"),
}


def _read(fn):
    with open(os.path.join(FIX, fn)) as f:
        return f.read()


def load(role, name):
    """Return (X509CertChain, private key).  Key objects are cached; call
    reset_keys() at the start of each run so RSA blinding state does not leak
    entropy consumption from one run into the next."""
    k = (role, name)
    if k in _cache:
        return _cache[k]
    from tlslite.api import X509, X509CertChain, parsePEMKey
    cf, kf = (SERVER if role == "server" else CLIENT)[name]
    x = X509()
    x.parse(_read(cf))
    chain = X509CertChain([x])
    key = parsePEMKey(_read(kf), private=True,
                      implementations=["python"])
    _cache[k] = (chain, key)
    return _cache[k]


def fresh(role, name):
    """Uncached copy (for checks that patch the key instance)."""
    from tlslite.api import X509, X509CertChain, parsePEMKey
    cf, kf = (SERVER if role == "server" else CLIENT)[name]
    x = X509()
    x.parse(_read(cf))
    return X509CertChain([x]), parsePEMKey(_read(kf), private=True,
                                           implementations=["python"])


def reset_keys():
    for chain, key in _cache.values():
        if hasattr(key, "blinder"):
            key.blinder = 0
            key.unblinder = 0
        for x in chain.x509List:
            pk = x.publicKey
            if hasattr(pk, "blinder"):
                pk.blinder = 0
                pk.unblinder = 0


_srp = {}


def verifier_db(user=b"test", password=b"password", bits=1536):
    """In-memory VerifierDB with one user (verifier computed once per process
    from a fixed salt so it does not consume simulated entropy)."""
    from tlslite.api import VerifierDB
    from tlslite import mathtls
    k = (user, password, bits)
    if k not in _srp:
        import os as _os
        from . import kernel
        saved = kernel.CTX.node
        kernel.CTX.node = None
        st = kernel.CTX.harness_rng.getstate()
        kernel.CTX.harness_rng.seed("srp-verifier")
        try:
            _srp[k] = mathtls.makeVerifier(user, password, bits)
        finally:
            kernel.CTX.harness_rng.setstate(st)
            kernel.CTX.node = saved
    db = VerifierDB()
    db.create()
    N, g, salt, verifier = _srp[k]
    db[user] = (N, g, salt, verifier)
    return db


DC_KEYS = {
    "rsa_pss_pss_sha256": ("serverDelCredRSAPSSKey.pem",
                           "serverDelCredRSAPSSPub.pem"),
    "ed25519": ("serverDelCredEd25519Key.pem", "serverDelCredEd25519Pub.pem"),
    "ecdsa_secp256r1_sha256": ("serverDelCredSECP256r1Key.pem",
                               "serverDelCredSECP256r1Pub.pem"),
    "ecdsa_secp384r1_sha384": ("serverDelCredSECP384r1Key.pem",
                               "serverDelCredSECP384r1Pub.pem"),
}
# signature scheme the delegating certificate key signs the credential with
DC_CERT_SCHEME = {"rsa": "rsa_pss_rsae_sha256", "rsa_nonca":
                  "rsa_pss_rsae_sha256",
                  "ecdsa": "ecdsa_secp256r1_sha256",
                  "ecdsa_nonca": "ecdsa_secp256r1_sha256",
                  "ed25519": "ed25519"}


def delegated(cert_name, dc_alg, signer_name=None):
    """(dc private key, DelegatedCredential) for server certificate
    `cert_name`; the delegation is signed by `signer_name`'s key (default:
    the certificate's own key - the honest case), as tests/tlstest.py does."""
    import hashlib
    from tlslite.api import parsePEMKey
    from tlslite.utils.pem import dePem
    from tlslite.constants import SignatureScheme, SignatureAlgorithm, \
        HashAlgorithm
    from tlslite.x509 import DelegatedCredential, Credential
    from tlslite.handshakesettings import DC_VALID_TIME
    kf, pf = DC_KEYS[dc_alg]
    dc_key = parsePEMKey(_read(kf), private=True, implementations=["python"])
    dc_pub = dePem(_read(pf), "PUBLIC KEY")
    dc_scheme = getattr(SignatureScheme, dc_alg)
    chain, _ = load("server", cert_name)
    _, skey = load("server", signer_name or cert_name)
    sname = DC_CERT_SCHEME[signer_name or cert_name]
    sig_alg = getattr(SignatureScheme, sname)
    cred_bytes = Credential.marshal(DC_VALID_TIME, dc_scheme, dc_pub)
    cred = Credential(valid_time=DC_VALID_TIME,
                      dc_cert_verify_algorithm=dc_scheme,
                      subject_public_key_info=dc_pub, bytes=cred_bytes)
    tbs = DelegatedCredential.compute_certificate_dc_sig_context(
        chain.x509List[0].bytes, cred_bytes, sig_alg)
    if sig_alg in (SignatureScheme.ed25519, SignatureScheme.ed448):
        args = (None, "intrinsic", None)
    elif sig_alg[1] == SignatureAlgorithm.ecdsa:
        args = (None, HashAlgorithm.toRepr(sig_alg[0]), None)
    else:
        hn = SignatureScheme.getHash(sname)
        args = (SignatureScheme.getPadding(sname), hn,
                getattr(hashlib, hn)().digest_size)
    signature = skey.hashAndSign(tbs, *args)
    return dc_key, DelegatedCredential(cred=cred, algorithm=sig_alg,
                                       signature=signature)
