"""Record-aware man-in-the-middle on a Link (wire tampering faults)."""

from . import net


class RecordMitm(object):
    """Sits on both pipes of a Link.  tampers: list of dicts
         {dir: 'c2s'|'s2c', idx: record index in that direction, kind, ...}
    Every record seen is remembered (self.seen) so that replays, reflections
    and cross-epoch injections can use real captured records."""

    def __init__(self, link, tampers=(), stats=None):
        self.link = link
        self.tampers = list(tampers)
        self.stats = stats if stats is not None else {}
        self.seen = {"c2s": [], "s2c": []}
        self.parsers = {"c2s": net.RecordParser(), "s2c": net.RecordParser()}
        self.held = {"c2s": None, "s2c": None}
        self.fired = []
        self.forged_marks = []     # (dir, description) of forged records
        link.c2s.mitm = lambda d: self.feed("c2s", d)
        link.s2c.mitm = lambda d: self.feed("s2c", d)

    def _count(self, k):
        self.stats[k] = self.stats.get(k, 0) + 1
        self.fired.append(k)

    def feed(self, dirn, data):
        out = bytearray()
        for rec in self.parsers[dirn].feed(data):
            idx = len(self.seen[dirn])
            self.seen[dirn].append(rec)
            out += self.on_record(dirn, idx, rec)
        return bytes(out)

    def flush_tail(self, dirn):
        """Forward any partial-record bytes held by the parser (used when the
        sender closes)."""
        p = self.parsers[dirn]
        b = bytes(p.buf)
        p.buf = bytearray()
        return b

    def on_record(self, dirn, idx, rec):
        raw = net.rec_bytes(*rec)
        held = self.held[dirn]
        if held is not None:
            # second half of a swap: emit this record first, then the held one
            self.held[dirn] = None
            return raw + held
        t = None
        for cand in self.tampers:
            if cand["dir"] == dirn and cand["idx"] == idx:
                t = cand
                break
        if t is None:
            return raw
        kind = t["kind"]
        typ, ver, body = rec
        self._count(kind)
        if kind == "bitflip":
            b = bytearray(raw)
            pos = t["pos"] % len(b)
            b[pos] ^= t.get("mask", 1) or 1
            return bytes(b)
        if kind == "truncate":
            n = max(0, len(body) - t["n"])
            return net.rec_bytes(typ, ver, body[:n])
        if kind == "extend":
            return net.rec_bytes(typ, ver, body + bytes(t["n"]))
        if kind == "extend_front":
            return net.rec_bytes(typ, ver, bytes(t["n"]) + body)
        if kind == "drop":
            return b""
        if kind == "dup":
            return raw + raw
        if kind == "swap":
            self.held[dirn] = raw
            return b""
        if kind == "replay_old":
            old = self.seen[dirn][t["src"]]
            return raw + net.rec_bytes(*old)
        if kind == "replay_old_before":
            old = self.seen[dirn][t["src"]]
            return net.rec_bytes(*old) + raw
        if kind == "reflect":
            other = "s2c" if dirn == "c2s" else "c2s"
            if t["src"] < len(self.seen[other]):
                old = self.seen[other][t["src"]]
                return net.rec_bytes(*old) + raw
            # the record to reflect has not been sent yet: nothing forged
            self.fired.pop()
            self.stats[kind] -= 1
            return raw
        if kind == "inject_plain":
            return net.rec_bytes(t["type"], tuple(t.get("ver", ver)),
                                 bytes.fromhex(t["body"])) + raw
        if kind == "hdr_type":
            return net.rec_bytes(t["type"], ver, body)
        if kind == "hdr_version":
            return net.rec_bytes(typ, tuple(t["ver"]), body)
        if kind == "hdr_length":
            b = bytearray(raw)
            ln = max(0, min(0xffff, len(body) + t["delta"]))
            b[3] = ln >> 8
            b[4] = ln & 0xff
            return bytes(b)
        if kind == "replace_body":
            return net.rec_bytes(typ, ver, bytes.fromhex(t["body"]))
        raise ValueError(kind)
