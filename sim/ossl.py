"""OpenSSL (stdlib ssl.SSLObject over MemoryBIO) as a simulated endpoint."""

import os
import ssl
import warnings

from . import creds, kernel, loop

warnings.simplefilter("ignore", DeprecationWarning)

VERS = {(3, 1): ssl.TLSVersion.TLSv1, (3, 2): ssl.TLSVersion.TLSv1_1,
        (3, 3): ssl.TLSVersion.TLSv1_2, (3, 4): ssl.TLSVersion.TLSv1_3}
VNAME = {"TLSv1": (3, 1), "TLSv1.1": (3, 2), "TLSv1.2": (3, 3),
         "TLSv1.3": (3, 4)}
_ciphers = None


def cipher_table():
    """OpenSSL's own list: id (16 bit) -> entry."""
    global _ciphers
    if _ciphers is None:
        ctx = ssl.SSLContext(ssl.PROTOCOL_TLS_SERVER)
        ctx.set_ciphers("ALL:COMPLEMENTOFALL:@SECLEVEL=0")
        _ciphers = {c["id"] & 0xffff: c for c in ctx.get_ciphers()}
    return _ciphers


class _FakeConn(object):
    """What loop.Endpoint._post needs."""
    closed = False
    session = None


class OsslEndpoint(loop.Endpoint):
    def __init__(self, sim, name, sock, server, ver_lo, ver_hi, ciphers=None,
                 key=None, alpn=None, verify_client=None, curves=None,
                 no_tickets=False, session=None, sni=None, ctx=None):
        self.sim = sim
        self.name = name
        self.sock = sock
        self.node = kernel.Node(name, sim.seed)
        self.conn = _FakeConn()
        self.op = None
        self.cur = None
        self.blocked = None
        self.history = []
        reuse = ctx is not None
        if reuse:
            self.ctx = ctx
            self.inb = ssl.MemoryBIO()
            self.outb = ssl.MemoryBIO()
            kw = {}
            if session is not None:
                kw["session"] = session
            self.obj = ctx.wrap_bio(self.inb, self.outb, server_side=server,
                                    server_hostname=sni if not server
                                    else None, **kw)
            return
        ctx = ssl.SSLContext(ssl.PROTOCOL_TLS_SERVER if server
                             else ssl.PROTOCOL_TLS_CLIENT)
        ctx.minimum_version = VERS[tuple(ver_lo)]
        ctx.maximum_version = VERS[tuple(ver_hi)]
        ctx.set_ciphers(ciphers or "ALL:COMPLEMENTOFALL:@SECLEVEL=0")
        if not server:
            ctx.check_hostname = False
            ctx.verify_mode = ssl.CERT_NONE
        if key:
            role, kname = key
            cf, kf = (creds.SERVER if role == "server" else creds.CLIENT)[kname]
            ctx.load_cert_chain(os.path.join(creds.FIX, cf),
                                os.path.join(creds.FIX, kf))
        if alpn:
            ctx.set_alpn_protocols(alpn)
        if curves:
            ctx.set_ecdh_curve(curves)
        if server:
            ctx.load_dh_params(os.path.join(creds.FIX, "ffdhe2048.pem"))
        if server and verify_client:
            ctx.verify_mode = ssl.CERT_REQUIRED
            ctx.verify_flags |= ssl.VERIFY_X509_PARTIAL_CHAIN
            cf = creds.CLIENT[verify_client][0]
            ctx.load_verify_locations(os.path.join(creds.FIX, cf))
        if no_tickets:
            ctx.options |= ssl.OP_NO_TICKET
        self.ctx = ctx
        self.inb = ssl.MemoryBIO()
        self.outb = ssl.MemoryBIO()
        kw = {}
        if session is not None:
            kw["session"] = session
        self.obj = ctx.wrap_bio(self.inb, self.outb, server_side=server,
                                server_hostname=sni if not server else None,
                                **kw)

    # -- plumbing -----------------------------------------------------------
    def _pump_in(self):
        import errno
        import socket
        got = False
        while True:
            try:
                d = self.sock.recv(65536)
            except socket.error as e:
                if e.args[0] in (errno.EWOULDBLOCK, errno.EAGAIN):
                    break
                raise
            if not d:
                self.inb.write_eof()
                break
            self.inb.write(d)
            got = True
        return got

    def _pump_out(self):
        d = self.outb.read()
        if d:
            self.sock.sendall(d)

    def _drive(self, fn):
        """Generator running an SSLObject call to completion."""
        while True:
            self._pump_in()
            try:
                r = fn()
            except ssl.SSLWantReadError:
                self._pump_out()
                yield 0
                continue
            except ssl.SSLWantWriteError:
                self._pump_out()
                yield 1
                continue
            finally:
                pass
            self._pump_out()
            yield ("result", r)
            return

    def gen_handshake(self):
        def g():
            for x in self._drive(self.obj.do_handshake):
                if x in (0, 1):
                    yield x
        return g

    def gen_write(self, data):
        def g():
            for x in self._drive(lambda: self.obj.write(data)):
                if x in (0, 1):
                    yield x
        return g

    def gen_read(self, n):
        def g():
            buf = b""
            while len(buf) < n:
                for x in self._drive(lambda: self.obj.read(n - len(buf))):
                    if x in (0, 1):
                        yield x
                    else:
                        if not x[1]:
                            yield buf
                            return
                        buf += x[1]
            yield buf
        return g

    def gen_close(self):
        def g():
            try:
                for x in self._drive(self.obj.unwrap):
                    if x in (0, 1):
                        # do not wait for the peer's close_notify
                        return
            except ssl.SSLError:
                return
        return g

    def _post(self):
        return (False, None)
