"""OpenSSL (stdlib ssl.SSLObject over MemoryBIO) as a simulated endpoint."""

import os
import ssl
import warnings

from . import creds, kernel, loop

warnings.simplefilter("ignore", DeprecationWarning)

VERS = {(3, 1): ssl.TLSVersion.TLSv1, (3, 2): ssl.TLSVersion.TLSv1_1,
        (3, 3): ssl.TLSVersion.TLSv1_2, (3, 4): ssl.TLSVersion.TLSv1_3}
VNAME = {"TLSv1": (3, 1), "TLSv1.1": (3, 2), "TLSv1.2": (3, 3),
         "TLSv1.3": (3, 4)}
_ciphers = None


def cipher_table():
    """OpenSSL's own list: id (16 bit) -> entry."""
    global _ciphers
    if _ciphers is None:
        ctx = ssl.SSLContext(ssl.PROTOCOL_TLS_SERVER)
        ctx.set_ciphers("ALL:COMPLEMENTOFALL:@SECLEVEL=0")
        _ciphers = {c["id"] & 0xffff: c for c in ctx.get_ciphers()}
    return _ciphers


class _FakeConn(object):
    """What loop.Endpoint._post needs."""
    closed = False
    session = None


class OsslEndpoint(loop.Endpoint):
    def __init__(self, sim, name, sock, server, ver_lo, ver_hi, ciphers=None,
                 key=None, alpn=None, verify_client=None, curves=None,
                 no_tickets=False, session=None, sni=None, ctx=None):
        self.sim = sim
        self.name = name
        self.sock = sock
        self.node = kernel.Node(name, sim.seed)
        self.conn = _FakeConn()
        self.op = None
        self.cur = None
        self.blocked = None
        self.history = []
        # everything this endpoint does to the outside world, in order (its
        # randomness is real): enough to replay the tlslite side exactly
        self.tape = []
        reuse = ctx is not None
        if reuse:
            self.ctx = ctx
            self.inb = ssl.MemoryBIO()
            self.outb = ssl.MemoryBIO()
            kw = {}
            if session is not None:
                kw["session"] = session
            self.obj = ctx.wrap_bio(self.inb, self.outb, server_side=server,
                                    server_hostname=sni if not server
                                    else None, **kw)
            return
        ctx = ssl.SSLContext(ssl.PROTOCOL_TLS_SERVER if server
                             else ssl.PROTOCOL_TLS_CLIENT)
        ctx.minimum_version = VERS[tuple(ver_lo)]
        ctx.maximum_version = VERS[tuple(ver_hi)]
        ctx.set_ciphers(ciphers or "ALL:COMPLEMENTOFALL:@SECLEVEL=0")
        if not server:
            ctx.check_hostname = False
            ctx.verify_mode = ssl.CERT_NONE
        if key:
            role, kname = key
            cf, kf = (creds.SERVER if role == "server" else creds.CLIENT)[kname]
            ctx.load_cert_chain(os.path.join(creds.FIX, cf),
                                os.path.join(creds.FIX, kf))
        if alpn:
            ctx.set_alpn_protocols(alpn)
        if curves:
            ctx.set_ecdh_curve(curves)
        if server:
            ctx.load_dh_params(os.path.join(creds.FIX, "ffdhe2048.pem"))
        if server and verify_client:
            ctx.verify_mode = ssl.CERT_REQUIRED
            ctx.verify_flags |= ssl.VERIFY_X509_PARTIAL_CHAIN
            cf = creds.CLIENT[verify_client][0]
            ctx.load_verify_locations(os.path.join(creds.FIX, cf))
        if no_tickets:
            ctx.options |= ssl.OP_NO_TICKET
        self.ctx = ctx
        self.inb = ssl.MemoryBIO()
        self.outb = ssl.MemoryBIO()
        kw = {}
        if session is not None:
            kw["session"] = session
        self.obj = ctx.wrap_bio(self.inb, self.outb, server_side=server,
                                server_hostname=sni if not server else None,
                                **kw)

    # -- plumbing -----------------------------------------------------------
    def _pump_in(self):
        import errno
        import socket
        got = False
        while True:
            try:
                d = self.sock.recv(65536)
            except socket.error as e:
                if e.args[0] in (errno.EWOULDBLOCK, errno.EAGAIN):
                    self.tape.append(["r", -1])
                    break
                self.tape.append(["r", -2])
                raise
            self.tape.append(["r", len(d)])
            if not d:
                self.inb.write_eof()
                break
            self.inb.write(d)
            got = True
        return got

    def _pump_out(self):
        d = self.outb.read()
        if d:
            self.tape.append(["s", bytes(d).hex()])
            self.sock.sendall(d)

    def _drive(self, fn):
        """Generator running an SSLObject call to completion."""
        while True:
            self._pump_in()
            try:
                r = fn()
            except ssl.SSLWantReadError:
                self._pump_out()
                self.tape.append(["y", 0])
                yield 0
                continue
            except ssl.SSLWantWriteError:
                self._pump_out()
                self.tape.append(["y", 1])
                yield 1
                continue
            finally:
                pass
            self._pump_out()
            yield ("result", r)
            return

    def facts(self):
        o = self.obj
        try:
            pc = o.getpeercert(True) is not None
        except Exception:       # noqa
            pc = False
        return {"cipher": list(o.cipher() or ()), "version": o.version(),
                "alpn": o.selected_alpn_protocol(), "peercert": pc,
                "reused": bool(o.session_reused)}

    def _taped(self, inner, value=False, facts=False):
        """Run generator `inner`, writing its end (and result) to the tape."""
        def g():
            self.tape.append(["op"])
            try:
                last = None
                for x in inner():
                    if type(x) is int and x in (0, 1):
                        yield x
                    else:
                        last = x
                if facts:
                    self.tape.append(["facts", self.facts()])
                self.tape.append(["end", "ok", bytes(last).hex()
                                  if value and last is not None else None])
                if last is not None:
                    yield last
            except GeneratorExit:
                raise
            except BaseException as e:
                self.tape.append(["end", "exc", type(e).__name__,
                                  [a for a in e.args
                                   if isinstance(a, (int, str))],
                                  getattr(e, "reason", None)])
                raise
        return g

    def gen_handshake(self):
        def g():
            for x in self._drive(self.obj.do_handshake):
                if x in (0, 1):
                    yield x
        return self._taped(g, facts=True)

    def gen_write(self, data):
        def g():
            for x in self._drive(lambda: self.obj.write(data)):
                if x in (0, 1):
                    yield x
        return self._taped(g)

    def gen_read(self, n):
        def g():
            buf = b""
            while len(buf) < n:
                for x in self._drive(lambda: self.obj.read(n - len(buf))):
                    if x in (0, 1):
                        yield x
                    else:
                        if not x[1]:
                            yield buf
                            return
                        buf += x[1]
            yield buf
        return self._taped(g, value=True)

    def gen_close(self):
        def g():
            try:
                for x in self._drive(self.obj.unwrap):
                    if x in (0, 1):
                        # do not wait for the peer's close_notify
                        return
            except ssl.SSLError:
                return
        return self._taped(g)

    def _post(self):
        return (False, None)


class ReplayDiverged(Exception):
    """The tlslite side did not behave as it did when the tape was made."""


class _StubObj(object):
    """Recorded facts of an SSLObject."""
    session = None

    def __init__(self):
        self.f = {"cipher": [], "version": None, "alpn": None,
                  "peercert": False, "reused": False}

    def cipher(self):
        return tuple(self.f["cipher"])

    def version(self):
        return self.f["version"]

    def selected_alpn_protocol(self):
        return self.f["alpn"]

    def getpeercert(self, binary=False):
        return b"recorded" if self.f["peercert"] else None

    @property
    def session_reused(self):
        return self.f["reused"]


class ReplayOssl(loop.Endpoint):
    """Plays an OsslEndpoint tape: the same socket calls, the same bytes, the
    same yields, the same results - OpenSSL itself is not run.  tlslite is
    deterministic, so it meets exactly the environment of the recorded run;
    any difference in what it sends raises ReplayDiverged."""

    def __init__(self, sim, name, sock, tape):
        self.sim = sim
        self.name = name
        self.sock = sock
        self.node = kernel.Node(name, sim.seed)
        self.conn = _FakeConn()
        self.op = None
        self.cur = None
        self.blocked = None
        self.history = []
        self.tape = [list(e) for e in tape]
        self.pos = 0
        self.obj = _StubObj()
        self.ctx = None

    def _play(self):
        import errno
        import socket
        if self.pos >= len(self.tape) or self.tape[self.pos][0] != "op":
            raise ReplayDiverged("operation not on the tape")
        self.pos += 1
        while True:
            if self.pos >= len(self.tape):
                raise ReplayDiverged("tape exhausted")
            ev = self.tape[self.pos]
            self.pos += 1
            k = ev[0]
            if k == "r":
                try:
                    got = len(self.sock.recv(65536))
                except socket.error as e:
                    got = -1 if e.args[0] in (errno.EWOULDBLOCK,
                                              errno.EAGAIN) else -2
                if got != ev[1]:
                    raise ReplayDiverged("recv gave %d, tape says %d" %
                                         (got, ev[1]))
                if got == -2:
                    raise socket.error(errno.ECONNRESET, "recorded")
            elif k == "s":
                self.sock.sendall(bytes.fromhex(ev[1]))
            elif k == "y":
                yield ev[1]
            elif k == "facts":
                self.obj.f = ev[1]
            elif k == "end":
                if ev[1] == "ok":
                    if ev[2] is not None:
                        yield bytes.fromhex(ev[2])
                    return
                name = ev[2]
                cls = getattr(ssl, name, None) or \
                    getattr(__import__("builtins"), name, RuntimeError)
                try:
                    e = cls(*ev[3])
                except Exception:       # noqa
                    e = RuntimeError(name, ev[3])
                if ev[4] is not None:
                    try:
                        e.reason = ev[4]
                    except Exception:   # noqa
                        pass
                raise e
            else:
                raise ReplayDiverged("bad tape entry %r" % (ev,))

    def gen_handshake(self):
        return self._play

    def gen_write(self, data):
        return self._play

    def gen_read(self, n):
        return self._play

    def gen_close(self):
        return self._play

    def _post(self):
        return (False, None)
