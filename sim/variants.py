"""Alternate execution modes for C14: re-framing MITM, blocking API on
baton-passed threads, AsyncStateMachine."""

import errno
import hashlib
import socket

from . import kernel, loop, mitm, net, nodes, threads, views


def stream_digest(pipe, mode):
    """Digest of what the sender wrote in one direction."""
    data = bytes(pipe.sent_log)
    return hashlib.sha256(data).hexdigest()[:24] + ":%d" % len(data)


# ---------------------------------------------------------------------------
# re-framing of plaintext handshake records in flight

def install_reframer(link, chooser, stats):
    """Split / merge plaintext handshake records (type 22) in both directions
    until the first ChangeCipherSpec or application-data-typed record of
    that direction (after which type-22 records are encrypted)."""
    m = mitm.RecordMitm(link, [], stats)
    plain = {"c2s": True, "s2c": True}

    def count(k):
        stats[k] = stats.get(k, 0) + 1

    def feed(dirn, data):
        recs = m.parsers[dirn].feed(data)
        out = bytearray()
        i = 0
        while i < len(recs):
            typ, ver, body = recs[i]
            m.seen[dirn].append(recs[i])
            if typ in (20, 23):
                plain[dirn] = False
            if not plain[dirn] or typ != 22 or not body:
                out += net.rec_bytes(typ, ver, body)
                i += 1
                continue
            # merge with following plaintext handshake records of this batch
            merged = bytes(body)
            j = i + 1
            while j < len(recs) and recs[j][0] == 22 and recs[j][1] == ver \
                    and len(merged) + len(recs[j][2]) <= 16384 \
                    and chooser.draw(3, "rf.merge") == 1:
                merged += bytes(recs[j][2])
                m.seen[dirn].append(recs[j])
                j += 1
                count("reframe_merge")
            i = j
            # split at drawn offsets
            pieces = [merged]
            nsplit = chooser.draw(4, "rf.nsplit")
            for _ in range(nsplit):
                k = chooser.draw(len(pieces), "rf.which")
                p = pieces[k]
                if len(p) < 2:
                    continue
                cut = 1 + chooser.draw(len(p) - 1, "rf.cut")
                pieces[k:k + 1] = [p[:cut], p[cut:]]
                count("reframe_split")
            for p in pieces:
                out += net.rec_bytes(22, ver, p)
        return bytes(out)
    link.c2s.mitm = lambda d: feed("c2s", d)
    link.s2c.mitm = lambda d: feed("s2c", d)
    return m


# ---------------------------------------------------------------------------
# blocking API on scheduled threads

class BlockingSocket(object):
    """Blocking-mode socket over Pipes for a worker thread of a Baton."""

    def __init__(self, name, inp, out, sched, chooser, stats):
        self.name = name
        self.inp = inp
        self.out = out
        self.sched = sched
        self.ch = chooser
        self.stats = stats
        self.closed = False

    def _count(self, k):
        self.stats[k] = self.stats.get(k, 0) + 1

    def send(self, data):
        if self.closed:
            raise socket.error(errno.EBADF, "EBADF")
        self.sched.yield_point()
        n = len(data)
        take = n
        if n > 1:
            v = self.ch.draw(4, self.name + ".bsend")
            if v == 1:
                take = 1
            elif v == 2:
                take = 1 + self.ch.draw(n - 1, self.name + ".bsendn")
            if take < n:
                self._count("partial_send")
        self.out.write(data[:take])
        return take

    def sendall(self, data):
        if self.closed:
            raise socket.error(errno.EBADF, "EBADF")
        self.sched.yield_point()
        self.out.write(data)

    def recv(self, n):
        if self.closed:
            raise socket.error(errno.EBADF, "EBADF")
        self.sched.yield_point()
        inp = self.inp
        if not inp.readable():
            self._count("blocked_recv")
            self.sched.block_until(inp.readable)
        if inp.avail == 0:
            if inp.reset:
                raise socket.error(errno.ECONNRESET, "ECONNRESET")
            return b""
        m = min(n, inp.avail)
        take = m
        v = self.ch.draw(5, self.name + ".brecv")
        if v == 1:
            take = 1
        elif v == 2:
            take = min(m, 5)
        elif v == 3 and m > 1:
            take = 1 + self.ch.draw(m, self.name + ".brecvn") % m
        if take < m:
            self._count("short_recv")
        return inp.read(take)

    def close(self):
        if not self.closed:
            self.closed = True
            self.out.eof = True

    def shutdown(self, how):
        self.out.eof = True

    def settimeout(self, v):
        pass

    def gettimeout(self):
        return None

    def setsockopt(self, *a):
        pass

    def getsockname(self):
        return (self.name, 0)

    def getpeername(self):
        return ("peer", 0)


def execute_sync(seed, sc, script, chooser):
    """Same scenario through the blocking API, each endpoint on a real
    thread; the Baton decides who runs at every socket call."""
    from tlslite.tlsconnection import TLSConnection
    kernel.reset_harness(seed)
    from . import creds
    creds.reset_keys()
    stats = {}
    sched = threads.Baton(chooser, watched=(), policy="random",
                          max_steps=2000000, label="sync")
    c2s = net.Pipe("c2s")
    s2c = net.Pipe("s2c")
    socks = {"c": BlockingSocket("c", s2c, c2s, sched, chooser, stats),
             "s": BlockingSocket("s", c2s, s2c, sched, chooser, stats)}
    nodes_ = {"c": kernel.Node("c", seed), "s": kernel.Node("s", seed)}
    conns = {}
    for w in "cs":
        with nodes_[w]:
            conns[w] = TLSConnection(socks[w])
        if sc.get("close_socket") is False:
            conns[w].closeSocket = False

    class _P(nodes.Pair):
        def __init__(self):
            self.scen = sc
            self.cset = nodes.make_settings(sc.get("cset"))
            self.sset = nodes.make_settings(sc.get("sset"))

            class E(object):
                pass
            self.c = E()
            self.s = E()
            self.c.conn = conns["c"]
            self.s.conn = conns["s"]
    pair = _P()
    res = {"c": [], "s": []}
    hs = {}
    vw = {}

    def blocking(gen):
        r = None
        for r in gen:
            pass
        return r

    def worker(w):
        def body():
            out = loop.Outcome(("handshake", "client" if w == "c"
                                else "server"))
            try:
                # the blocking entry points (handshakeClient*(async_=False),
                # handshakeServer) are wrappers of their own
                g = (pair.client_gen(blocking=True) if w == "c"
                     else pair.server_gen(blocking=True))()
                if g is not None and hasattr(g, "__next__"):
                    blocking(g)
                out.kind = "ok"
            except Exception as e:        # noqa
                out.kind = "exc"
                out.exc = e
            hs[w] = out
            vw[w] = views.view(conns[w]) if out.kind == "ok" else None
            if out.kind != "ok":
                return
            # wait for the peer's handshake verdict only through the wire
            for op in [o for o in script if o[0] == w]:
                o = loop.Outcome(tuple(op[1:]))
                try:
                    if op[1] == "write":
                        from . import scen as _scen
                        conns[w].write(_scen.payload(
                            1 if w == "c" else 2, op[2], op[3]))
                        o.kind = "ok"
                    elif op[1] == "read":
                        o.value = conns[w].read(op[2], op[3])
                        o.kind = "ok"
                    elif op[1] == "close":
                        conns[w].close()
                        o.kind = "ok"
                except Exception as e:    # noqa
                    o.kind = "exc"
                    o.exc = e
                res[w].append(o)
        return body
    for w in "cs":
        sched.spawn(w, worker(w), nodes_[w])
    st = sched.run()
    both_ok = all(hs.get(w) is not None and hs[w].kind == "ok" for w in "cs")
    tr = {"hs": [hs["c"].sig() if "c" in hs else ("handshake", "pending"),
                 hs["s"].sig() if "s" in hs else ("handshake", "pending")],
          "status": ["idle" if st == "done" else st],
          "ops": {"c": [], "s": []},
          "view_c": vw.get("c"), "view_s": vw.get("s")}
    if both_ok:
        tr["status"].append("idle" if st == "done" else st)
        for w in "cs":
            tr["ops"][w] = [o.sig() for o in res[w]]
    tr["wire"] = {"c2s": stream_digest(c2s, "sync"),
                  "s2c": stream_digest(s2c, "sync")}
    stats["thread_switch"] = sched.switches
    tr["_stats"] = stats
    tr["_steps"] = sched.steps
    tr["_order"] = hashlib.sha256("".join(sched.order).encode()).hexdigest()
    tr["_sim"] = None
    return tr


# ---------------------------------------------------------------------------
# AsyncStateMachine

def execute_asm(seed, sc, script, chooser):
    """Same scenario with both endpoints driven through AsyncStateMachine;
    reads are emulated record by record on top of outReadEvent()."""
    from tlslite.integration.asyncstatemachine import AsyncStateMachine
    sim = nodes.new_run(seed, chooser=chooser, max_steps=400000)
    pair = nodes.Pair(sim, sc, policy="random",
                      wb_budget=kernel.Budget(30),
                      delay_budget=kernel.Budget(30))
    stats = sim.stats

    class ASM(AsyncStateMachine):
        def __init__(self, ep):
            AsyncStateMachine.__init__(self)
            self.tlsConnection = ep.conn
            self.ep = ep
            self.chunks = []        # data handed out by outReadEvent
            self.connected = False
            self.closed_evt = False
            self.write_done = False

        def outConnectEvent(self):
            self.connected = True

        def outCloseEvent(self):
            self.closed_evt = True

        def outReadEvent(self, readBuffer):
            self.chunks.append(bytes(readBuffer))

        def outWriteEvent(self):
            self.write_done = True

    asm = {"c": ASM(pair.c), "s": ASM(pair.s)}
    eps = {"c": pair.c, "s": pair.s}
    hs = {}
    res = {"c": [], "s": []}
    q = {w: [o for o in script if o[0] == w] for w in "cs"}
    cur = {"c": None, "s": None}       # (op, Outcome)
    started = {"c": False, "s": False}
    failed = {"c": False, "s": False}
    vw = {}

    def guarded(w, fn):
        with eps[w].node:
            return fn()

    # start handshakes
    for w in "cs":
        out = loop.Outcome(("handshake", "client" if w == "c" else "server"))
        out.kind = "pending"
        hs[w] = out
        try:
            g = guarded(w, (pair.client_gen() if w == "c"
                            else pair.server_gen()))
            guarded(w, lambda: asm[w].setHandshakeOp(g))
        except Exception as e:       # noqa
            out.kind = "exc"
            out.exc = e
            failed[w] = True

    def readable(w):
        # a readiness-driven application cannot see bytes that tlslite's
        # BufferedSocket has already pulled off the socket (read-ahead of
        # >= 4096 bytes); the driver therefore also polls when that buffer is
        # non-empty - see DESIGN.md, C14 notes
        s = eps[w].sock
        return s.closed or s.inp.readable() or \
            len(eps[w].conn.sock._read_buffer) > 0

    def emulate_read(w, op, out):
        """Mirror readAsync(max, min) on the record chunks delivered so
        far; returns True when the read is complete."""
        a = asm[w]
        mx, mn = op[2], op[3]
        buf = a.__dict__.setdefault("rbuf", b"")
        closed = a.__dict__.get("rclosed", False)
        while len(buf) < mn and a.chunks and not closed:
            c = a.chunks.pop(0)
            if c == b"" and eps[w].conn.closed:
                closed = True
                break
            buf += c
        a.rbuf = buf
        a.rclosed = closed
        if len(buf) >= mn or closed or (eps[w].conn.closed and
                                        not a.chunks):
            if mx is None:
                mx = len(buf)
            out.value = buf[:mx]
            a.rbuf = buf[mx:]
            out.kind = "ok"
            return True
        return False

    steps = 0
    order = hashlib.sha256()
    status = "idle"
    while True:
        steps += 1
        if steps > 400000:
            status = "cap"
            break
        acts = []
        for w in "cs":
            a = asm[w]
            if failed[w]:
                continue
            if hs[w].kind == "pending":
                if a.connected:
                    hs[w].kind = "ok"
                    vw[w] = views.view(eps[w].conn)
            if hs[w].kind != "ok":
                if a.wantsReadEvent() and readable(w):
                    acts.append((w, "in_read"))
                elif a.wantsWriteEvent():
                    acts.append((w, "in_write"))
                continue
            # script processing (after own handshake)
            if cur[w] is None and q[w]:
                op = q[w][0]
                if op[1] == "read":
                    out = loop.Outcome(tuple(op[1:]))
                    out.kind = "pending"
                    cur[w] = (op, out)
                    q[w].pop(0)
                elif a.result is None:
                    out = loop.Outcome(tuple(op[1:]))
                    out.kind = "pending"
                    cur[w] = (op, out)
                    started[w] = False
                    q[w].pop(0)
            if cur[w] is not None and cur[w][0][1] in ("write", "close") \
                    and not started[w]:
                if a.result is None:
                    acts.append((w, "start"))
                elif a.wantsReadEvent() and readable(w):
                    acts.append((w, "in_read"))
                elif a.wantsWriteEvent():
                    acts.append((w, "in_write"))
                continue
            if cur[w] is not None and cur[w][0][1] == "read":
                op, out = cur[w]
                if emulate_read(w, op, out):
                    res[w].append(out)
                    cur[w] = None
                    acts.append((w, "noop"))
                    continue
            if a.wantsWriteEvent():
                acts.append((w, "in_write"))
            elif a.wantsReadEvent() and readable(w):
                acts.append((w, "in_read"))
            elif a.result is None and readable(w) and \
                    not eps[w].conn.closed and \
                    (cur[w] is not None and cur[w][0][1] == "read"):
                acts.append((w, "in_read"))
            elif cur[w] is not None and cur[w][0][1] == "read" and \
                    eps[w].conn.closed:
                acts.append((w, "noop"))
        if not acts:
            sim._deliver(force=True)
            if any(p.in_flight() for l in sim.links for p in l.pipes()):
                continue
            again = False
            for w in "cs":
                if not failed[w] and (readable(w) and (
                        asm[w].wantsReadEvent() or
                        (cur[w] is not None and cur[w][0][1] == "read"
                         and asm[w].result is None
                         and not eps[w].conn.closed))):
                    again = True
            if again:
                continue
            pend = [w for w in "cs" if (cur[w] is not None or q[w] or
                                       hs[w].kind == "pending")
                    and not failed[w]]
            status = "stuck" if pend else "idle"
            break
        w, act = acts[chooser.draw(len(acts), "asm.sched")] \
            if len(acts) > 1 else acts[0]
        order.update((w + act[:3]).encode())
        stats["asm_event"] = stats.get("asm_event", 0) + 1
        a = asm[w]
        try:
            if act == "in_read":
                guarded(w, a.inReadEvent)
            elif act == "in_write":
                guarded(w, a.inWriteEvent)
            elif act == "start":
                op, out = cur[w]
                started[w] = True
                if op[1] == "write":
                    from . import scen as _scen
                    data = _scen.payload(1 if w == "c" else 2, op[2], op[3])
                    guarded(w, lambda: a.setWriteOp(data))
                elif op[1] == "close":
                    guarded(w, a.setCloseOp)
        except Exception as e:      # noqa
            if hs[w].kind == "pending":
                hs[w].kind = "exc"
                hs[w].exc = e
                failed[w] = True
            elif cur[w] is not None:
                cur[w][1].kind = "exc"
                cur[w][1].exc = e
                res[w].append(cur[w][1])
                cur[w] = None
            else:
                # error surfaced by an implicit read: attribute it to the
                # next scripted read
                if q[w] and q[w][0][1] == "read":
                    op = q[w].pop(0)
                    out = loop.Outcome(tuple(op[1:]))
                    out.kind = "exc"
                    out.exc = e
                    res[w].append(out)
                else:
                    failed[w] = True
        # completion of write / close ops
        if cur[w] is not None and cur[w][0][1] in ("write", "close") and \
                started[w] and \
                a.result is None and a.writer is None and a.closer is None:
            cur[w][1].kind = "ok"
            res[w].append(cur[w][1])
            cur[w] = None
        sim._deliver()
    for w in "cs":
        if hs[w].kind == "pending" and asm[w].connected:
            hs[w].kind = "ok"
    both_ok = hs["c"].kind == "ok" and hs["s"].kind == "ok"
    tr = {"hs": [hs["c"].sig(), hs["s"].sig()], "status": [status],
          "ops": {"c": [], "s": []},
          "view_c": vw.get("c"), "view_s": vw.get("s")}
    if both_ok:
        tr["status"].append(status)
        for w in "cs":
            tr["ops"][w] = [o.sig() for o in res[w]]
    tr["wire"] = {"c2s": stream_digest(pair.link.c2s, "asm"),
                  "s2c": stream_digest(pair.link.s2c, "asm")}
    tr["_stats"] = dict(stats)
    tr["_steps"] = steps
    tr["_order"] = order.hexdigest()
    tr["_sim"] = None
    return tr
