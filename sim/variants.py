"""Alternate execution modes for C14: re-framing MITM, blocking API on
baton-passed threads, AsyncStateMachine."""

import hashlib

from . import net


def stream_digest(pipe, mode):
    """Digest of what the sender wrote in one direction."""
    data = bytes(pipe.sent_log)
    return hashlib.sha256(data).hexdigest()[:24] + ":%d" % len(data)
