"""The consistent byzantine peer: a real TLSConnection whose send path is
interposed on the instance, *before* a message is serialised and hashed into
its own transcript (so its later Finished / CertificateVerify / binders are
consistent with its lie)."""

from . import kernel

_patched = []


def disable_version_filter(node):
    """For `node` only, make CipherSuite.filterForVersion / _filterSuites
    ignore the protocol version."""
    from tlslite.constants import CipherSuite
    orig_ffv = CipherSuite.__dict__["filterForVersion"]
    orig_fs = CipherSuite.__dict__["_filterSuites"]

    def ffv(suites, minVersion, maxVersion):
        if kernel.CTX.node is node:
            return list(suites)
        return orig_ffv.__func__(suites, minVersion, maxVersion)

    def fs(suites, settings, version=None):
        if kernel.CTX.node is node:
            return orig_fs.__func__(suites, settings, (3, 4))
        return orig_fs.__func__(suites, settings, version)
    CipherSuite.filterForVersion = staticmethod(ffv)
    CipherSuite._filterSuites = staticmethod(fs)
    _patched.append((CipherSuite, "filterForVersion", orig_ffv))
    _patched.append((CipherSuite, "_filterSuites", orig_fs))


def restore():
    while _patched:
        obj, name, orig = _patched.pop()
        setattr(obj, name, orig)


class Interposer(object):
    """Wraps _sendMsg and _queue_message of one connection.

    rules: list of callables  rule(msg, ctx) -> None | list of messages to
    send instead (may be empty = skip; may contain the original).  ctx has
    .index (count of handshake/CCS messages seen so far), .conn, .log."""

    def __init__(self, conn, rules=()):
        self.conn = conn
        self.rules = list(rules)
        self.index = 0
        self.log = []           # (index, class name, action)
        self.sent = []          # descriptors of what was really emitted
        self.fired = []
        orig_send = conn._sendMsg
        orig_queue = conn._queue_message
        self._orig_send = orig_send
        self._orig_queue = orig_queue
        me = self

        def _sendMsg(msg, *a, **kw):
            outs = me._apply(msg)
            for m in outs:
                me.sent.append(me.desc(m))
                if hasattr(m, "raw_send"):
                    for r in m.raw_send(conn):
                        yield r
                    continue
                for r in orig_send(m, *a, **kw):
                    yield r

        def _drain(gen):
            for r in gen:
                if r in (0, 1):
                    raise RuntimeError("byzantine peer: synchronous send "
                                       "would block")

        def _queue_message(msg):
            outs = me._apply(msg)
            for m in outs:
                me.sent.append(me.desc(m))
                bct = conn._buffer_content_type
                mct = getattr(m, "contentType", None)
                if (bct is not None and bct != mct) or \
                        (mct != 22 and m is not msg) or \
                        hasattr(m, "raw_send"):
                    # a record of another content type cannot share the
                    # queue: flush what is queued, send it on its own (the
                    # transport of a byzantine peer never blocks on send)
                    if conn._buffer:
                        _drain(conn._queue_flush())
                    _drain(m.raw_send(conn) if hasattr(m, "raw_send")
                           else orig_send(m))
                else:
                    orig_queue(m)
        conn._sendMsg = _sendMsg
        conn._queue_message = _queue_message

    @staticmethod
    def desc(m):
        return (getattr(m, "contentType", None),
                getattr(m, "handshakeType", None), type(m).__name__)

    def _apply(self, msg):
        ct = getattr(msg, "contentType", None)
        if ct not in (20, 22) or type(msg).__name__ == "Message":
            return [msg]
        idx = self.index
        self.index += 1
        self.cur_index = idx
        for rule in self.rules:
            res = rule(msg, self)
            if res is not None:
                self.log.append((idx, type(msg).__name__, "rewritten"))
                return res
        return [msg]

    def fire(self, what):
        self.fired.append(what)


class ProtectedCCS(object):
    """A change_cipher_spec that is sent PROTECTED when the sender's write
    state is encrypting (TLS 1.3: tlslite itself always sends CCS in the
    clear, so the honest send path cannot produce this record)."""
    contentType = 20
    handshakeType = None

    def __init__(self, pad=0):
        self.was_protected = None
        self.pad = pad      # zero bytes of TLS 1.3 record padding

    def write(self):
        return bytearray([1])

    def raw_send(self, conn):
        from tlslite.messages import Message, ChangeCipherSpec
        rl = conn._recordLayer
        ws = rl._writeState
        if rl.version > (3, 3) and ws and ws.encContext:
            self.was_protected = True
            body = rl._encryptThenSeal(bytearray([1, 20]) +
                                       bytearray(self.pad), 23)
            for r in rl._recordSocket.send(Message(23, body)):
                yield r
        else:
            self.was_protected = False
            for r in rl.sendRecord(ChangeCipherSpec().create()):
                yield r


class MergedRecord(object):
    """A handshake message sent in ONE record together with the bytes of the
    message that follows it; only the message itself enters the sender's
    transcript now (the rule that drops the follower hashes it later, at its
    proper place)."""
    contentType = 22

    def __init__(self, first, extra):
        self.first = first
        self.extra = bytes(extra)
        self.handshakeType = getattr(first, "handshakeType", None)

    def write(self):
        return self.first.write()

    def raw_send(self, conn):
        from tlslite.messages import Message
        data = self.first.write()
        conn._handshake_hash.update(data)
        for r in conn._recordLayer.sendRecord(
                Message(22, bytearray(data) + bytearray(self.extra))):
            yield r
