"""Scenario generation shared by the checks (all draws go through a Chooser)."""

from model import suites as msuites

VERSIONS = [(3, 3), (3, 4), (3, 1), (3, 2), (3, 0)]   # index 0 = benign default
_S = None


def all_suites():
    global _S
    if _S is None:
        from tlslite.constants import CipherSuite
        _S = msuites.parse_all(CipherSuite.ietfNames)
    return _S


def suite_flavour(s):
    """Credentials/flavour needed to negotiate suite s (None: not offered by
    the library at all - static DH/ECDH, SRP_DSS)."""
    if s.tls13:
        return {"flavour": "cert", "skey": "rsa"}
    if s.kx == "srp":
        if s.auth == "dsa":
            return None
        if s.auth is None:
            return {"flavour": "srp"}
        return {"flavour": "srp_cert", "skey": "rsa"}
    if s.kx in ("dh", "ecdh"):
        return None
    if s.auth is None:
        return {"flavour": "anon"}
    return {"flavour": "cert", "skey": {"rsa": "rsa", "ecdsa": "ecdsa",
                                        "dsa": "dsa"}[s.auth]}


# DHE_DSS + CBC_SHA256 are in ietfNames but in none of the library's
# "get*Suites" lists: never offered, never selected.
NOT_OFFERED = (0x40, 0x6a)


def negotiable(ver):
    out = []
    for sid, s in sorted(all_suites().items()):
        if sid in NOT_OFFERED:
            continue
        if suite_flavour(s) is None or not s.defined_in(ver):
            continue
        out.append(sid)
    return out


def suite_scenario(sid, ver, etm=None, extra_c=None, extra_s=None):
    s = all_suites()[sid]
    sc = dict(suite_flavour(s))
    sc["suite"] = sid
    sc["version"] = list(ver)
    sc["cset"] = msuites.force_settings(s, ver, etm)
    sc["sset"] = msuites.force_settings(s, ver, etm)
    sc["cset"].update(extra_c or {})
    sc["sset"].update(extra_s or {})
    return sc


SERVER_KEYS = ["rsa", "ecdsa", "ecdsa384", "ecdsa521", "ed25519", "ed448",
               "dsa", "rsapss", "bp256"]
CLIENT_KEYS = [None, "rsa", "ecdsa", "ed25519", "dsa"]

PSK_HEX = ("746573742d70736b", "00112233445566778899aabbccddeeff"
           "00112233445566778899aabbccddeeff")


def key_ok(key, ver):
    ver = tuple(ver)
    if key in ("ed25519", "ed448", "rsapss", "bp256"):
        return ver >= (3, 3)
    if key == "dsa":
        return ver <= (3, 3)
    return True


def draw_flavour(ch, label="cfg", versions=None, allow=None):
    """General handshake scenario: version x flavour x options.  The all-zero
    draw is TLS 1.2 / RSA cert / no options."""
    vers = versions or VERSIONS
    ver = vers[ch.draw(len(vers), label + ".ver")]
    fl_pool = ["cert", "cert_cauth", "srp", "anon", "srp_cert", "psk", "hrr",
               "ecdh_anon"]
    if allow:
        fl_pool = [f for f in fl_pool if f in allow]
    while True:
        fl = fl_pool[ch.draw(len(fl_pool), label + ".flav")]
        if ver == (3, 4) and fl in ("srp", "anon", "srp_cert", "ecdh_anon"):
            fl = "cert"
        if ver < (3, 4) and fl in ("psk", "hrr"):
            fl = "cert"
        if ver == (3, 0) and fl in ("srp", "srp_cert"):
            fl = "cert"
        break
    sc = {"version": list(ver), "cset": {"minVersion": list(ver),
                                         "maxVersion": list(ver)},
          "sset": {"minVersion": list(ver), "maxVersion": list(ver)}}
    if fl in ("cert", "cert_cauth", "hrr"):
        sc["flavour"] = "cert"
        k = SERVER_KEYS[ch.draw(len(SERVER_KEYS), label + ".skey")]
        if not key_ok(k, ver):
            k = "rsa"
        sc["skey"] = k
        if k == "dsa":
            sc["cset"]["keyExchangeNames"] = ["dhe_dsa"]
        if fl == "cert_cauth":
            ck = CLIENT_KEYS[1 + ch.draw(len(CLIENT_KEYS) - 1,
                                         label + ".ckey")]
            if not key_ok(ck, ver):
                ck = "rsa"
            sc["ckey"] = ck
            sc["req_cert"] = True
        if fl == "hrr":
            sc["cset"]["keyShares"] = []
            sc["hrr"] = True
        elif k == "rsa" and ver < (3, 4):
            kx = ["", "rsa", "dhe_rsa", "ecdhe_rsa"][ch.draw(4, label + ".kx")]
            if kx:
                sc["cset"]["keyExchangeNames"] = [kx]
    elif fl == "srp":
        sc["flavour"] = "srp"
    elif fl == "srp_cert":
        sc["flavour"] = "srp_cert"
        sc["skey"] = "rsa"
    elif fl == "anon":
        sc["flavour"] = "anon"
        sc["cset"]["keyExchangeNames"] = ["dh_anon"]
    elif fl == "ecdh_anon":
        sc["flavour"] = "anon"
        sc["cset"]["keyExchangeNames"] = ["ecdh_anon"]
    elif fl == "psk":
        sc["flavour"] = "psk"
        sc["skey"] = "rsa"
        sc["cset"]["pskConfigs"] = [list(PSK_HEX)]
        sc["sset"]["pskConfigs"] = [list(PSK_HEX)]
        if ch.draw(2, label + ".pskmode"):
            sc["cset"]["psk_modes"] = ["psk_ke"]
    # options
    opt = ch.draw(8, label + ".opt")
    if opt == 1:
        sc["alpn_c"] = ["h2", "http/1.1"]
        sc["alpn_s"] = ["http/1.1"]
    elif opt == 2:
        sc["sni"] = "server.example"
    elif opt == 3:
        sc["cset"]["useEncryptThenMAC"] = False
    elif opt == 4:
        sc["cset"]["useExtendedMasterSecret"] = False
    elif opt == 5:
        sc["sset"]["record_size_limit"] = 64 + ch.draw(1000, label + ".rsl")
    elif opt == 6:
        sc["cset"]["record_size_limit"] = None
    elif opt == 7 and ver >= (3, 1):
        sc["sset"]["ticketKeys"] = ["11" * 32]
    return sc


# payload sizes biased to boundaries
def draw_len(ch, label, cap=40000, record=16384, block=16):
    table = [1, 0, 2, block - 1, block, block + 1, 255, 256, 257,
             record - 1, record, record + 1, 2 ** 14 - 1, 2 ** 14,
             2 ** 14 + 1, 2 * 2 ** 14 + 7, 3 * 2 ** 14]
    v = ch.draw(len(table) + 4, label)
    if v < len(table):
        n = table[v]
    else:
        n = ch.draw(cap, label + ".rnd")
    return max(0, min(n, cap))


_streams = {}


def payload(tag, offset, n):
    """Position-dependent byte stream (SHA-256 in counter mode, keyed by
    tag) so each delivered byte is attributable to its position in the
    sender's stream."""
    import hashlib
    if n <= 0:
        return b""
    st = _streams.get(tag)
    need = offset + n
    if st is None or len(st) < need:
        size = max(1 << 18, 1 << (need - 1).bit_length())
        st = b"".join(hashlib.sha256(b"%d:%d" % (tag, i)).digest()
                      for i in range(size // 32))
        _streams[tag] = st
    return st[offset:offset + n]
