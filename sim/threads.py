"""Baton scheduler for real threads.

Each worker is a real Python thread, but only the one holding the baton
runs.  Workers hand the baton back at every *yield point*: a line event in a
watched source file (sys.settrace), an acquire/release of a SimLock, or a
blocking call of a scripted socket.  The Chooser decides who gets the baton
next, so the interleaving is a pure function of the choice log.
"""

import sys
import threading


class Deadlock(Exception):
    pass


class _Worker(object):
    def __init__(self, sched, name, fn):
        self.sched = sched
        self.name = name
        self.fn = fn
        self.go = threading.Semaphore(0)
        self.done = False
        self.result = None
        self.exc = None
        self.blocked_on = None       # SimLock or callable() -> bool (ready?)
        self.steps = 0
        self.node = None             # kernel.Node: entropy/clock seam
        self.thread = threading.Thread(target=self._main, name=name,
                                       daemon=True)

    def _main(self):
        self.go.acquire()
        sched = self.sched
        sched._tls.worker = self
        if sched.watched:
            sys.settrace(sched._tracer)
        try:
            self.result = self.fn()
        except BaseException as e:      # noqa
            self.exc = e
        finally:
            sys.settrace(None)
            self.done = True
            sched.back.release()


class Baton(object):
    """policy: 'random' (uniform at every yield point), 'pct' (run the
    current thread; switch only at <= k drawn change points), 'rr'."""

    def __init__(self, chooser, watched=(), policy="random", max_steps=200000,
                 label="thr", pct_points=3, horizon=400):
        self.ch = chooser
        self.watched = tuple(watched)
        self.policy = policy
        self.max_steps = max_steps
        self.label = label
        self.workers = []
        self.back = threading.Semaphore(0)
        self._tls = threading.local()
        self.steps = 0
        self.switches = 0
        self.order = []
        self.current = None
        self.horizon = horizon
        self.change_points = set()
        if policy == "pct":
            for i in range(pct_points):
                self.change_points.add(chooser.draw(horizon,
                                                    label + ".cp"))
        self.events = []     # (seq, worker, kind, detail) history stamps
        self.seq = 0

    # -- tracing ------------------------------------------------------------
    def _tracer(self, frame, event, arg):
        if event != "call":
            return None
        fn = frame.f_code.co_filename
        for w in self.watched:
            if fn.endswith(w):
                return self._line_tracer
        return None

    def _line_tracer(self, frame, event, arg):
        if event == "line":
            self.yield_point()
        return self._line_tracer

    # -- worker side --------------------------------------------------------
    def me(self):
        return getattr(self._tls, "worker", None)

    def yield_point(self):
        w = self.me()
        if w is None:
            return
        self.back.release()
        w.go.acquire()

    def block_until(self, ready):
        """Worker: park until ready() is true (scheduler polls it)."""
        w = self.me()
        if w is None:
            if not ready():
                raise Deadlock("blocking call outside a worker")
            return
        while not ready():
            w.blocked_on = ready
            self.back.release()
            w.go.acquire()
        w.blocked_on = None

    def stamp(self, kind, detail=None):
        self.seq += 1
        w = self.me()
        self.events.append((self.seq, w.name if w else None, kind, detail))
        return self.seq

    # -- scheduler side -----------------------------------------------------
    def spawn(self, name, fn, node=None):
        w = _Worker(self, name, fn)
        w.node = node
        self.workers.append(w)
        w.thread.start()
        return w

    def _runnable(self):
        out = []
        for w in self.workers:
            if w.done:
                continue
            b = w.blocked_on
            if b is None:
                out.append(w)
            elif isinstance(b, SimLock):
                if b.owner is None:
                    out.append(w)
            elif b():
                out.append(w)
        return out

    def run(self):
        """Run all spawned workers to completion under the Chooser."""
        while True:
            live = [w for w in self.workers if not w.done]
            if not live:
                return "done"
            run = self._runnable()
            if not run:
                return "deadlock"
            if self.steps >= self.max_steps:
                return "cap"
            if len(run) == 1:
                w = run[0]
            elif self.policy == "random":
                w = run[self.ch.draw(len(run), self.label)]
            elif self.policy == "rr":
                w = run[self.steps % len(run)]
            else:   # pct
                if self.current in run and \
                        self.steps not in self.change_points:
                    w = self.current
                else:
                    others = [x for x in run if x is not self.current] or run
                    w = others[self.ch.draw(len(others), self.label)]
            if w is not self.current:
                self.switches += 1
            self.current = w
            self.steps += 1
            w.steps += 1
            self.order.append(w.name)
            from . import kernel
            kernel.CTX.node = w.node
            w.go.release()
            self.back.acquire()
            kernel.CTX.node = None

    def kill(self):
        """Best effort: let parked workers die with the process (daemon)."""
        pass


class SimLock(object):
    """threading.Lock look-alike that tells the scheduler who is blocked."""

    def __init__(self, sched, name="lock"):
        self.sched = sched
        self.name = name
        self.owner = None
        self.acquisitions = 0
        self.contended = 0

    def acquire(self, blocking=True, timeout=-1):
        s = self.sched
        me = s.me()
        s.yield_point()
        if self.owner is not None:
            if not blocking:
                return False
            self.contended += 1
            while self.owner is not None:
                if me is None:
                    raise Deadlock("lock held, no worker context")
                me.blocked_on = self
                s.back.release()
                me.go.acquire()
            me.blocked_on = None
        self.owner = me if me is not None else "main"
        self.acquisitions += 1
        return True

    def release(self):
        if self.owner is None:
            raise RuntimeError("release unlocked lock")
        self.owner = None
        self.sched.yield_point()

    def locked(self):
        return self.owner is not None

    def __enter__(self):
        self.acquire()
        return self

    def __exit__(self, *a):
        self.release()
        return False
