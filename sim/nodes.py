"""Scenario descriptors -> real TLSConnection endpoints and handshake ops."""

from . import creds, kernel, net, loop

TUPLE_KEYS = ("minVersion", "maxVersion")


def make_settings(over=None):
    from tlslite.api import HandshakeSettings
    hs = HandshakeSettings()
    for k, v in (over or {}).items():
        if k in TUPLE_KEYS:
            v = tuple(v)
        elif k == "versions":
            v = [tuple(x) for x in v]
        elif k == "pskConfigs":
            v = [tuple(bytearray(bytes.fromhex(y)) if i < 2 else y
                       for i, y in enumerate(x)) for x in v]
        elif k == "dhParams":
            v = tuple(int(x) for x in v)
        elif k == "dc_sig_algs":
            from tlslite.constants import SignatureScheme
            v = [getattr(SignatureScheme, x) for x in v]
        elif k == "ticketKeys":
            v = [bytearray(bytes.fromhex(x)) for x in v]
        elif k == "padding_cb":
            v = PADDING_CBS[v]
        elif isinstance(v, list):
            v = list(v)
        setattr(hs, k, v)
    return hs


def _pad_none(length, ctype, maxpad):
    return 0


def _pad_block(length, ctype, maxpad):
    return max(0, min(maxpad, (-length) % 64))


def _pad_max(length, ctype, maxpad):
    return max(0, maxpad)


def _pad_some(length, ctype, maxpad):
    return max(0, min(maxpad, (length * 7 + ctype) % 97))


PADDING_CBS = {None: None, "none": _pad_none, "block": _pad_block,
               "max": _pad_max, "some": _pad_some}


def version_settings(ver, over=None):
    d = {"minVersion": list(ver), "maxVersion": list(ver)}
    d.update(over or {})
    return d


class Pair(object):
    """Client and server endpoints over one Link, built from a scenario."""

    def __init__(self, sim, scen, link=None, policy="ideal", wb_budget=None,
                 delay_budget=None, cnode=None, snode=None, names=("c", "s")):
        self.sim = sim
        self.scen = scen
        if link is None:
            link = net.Link(sim.chooser, policy, sim.stats, wb_budget,
                            delay_budget, names=names)
        self.link = link
        sim.add_link(link)
        self.c = sim.endpoint(names[0], link.csock, cnode)
        self.s = sim.endpoint(names[1], link.ssock, snode)
        # (an application usually builds its settings once and passes the
        # same object to every connection: `settings_objs` = (cset, sset))
        shared = getattr(sim, "settings_objs", None)
        self.cset = shared[0] if shared else make_settings(scen.get("cset"))
        self.sset = shared[1] if shared else make_settings(scen.get("sset"))
        if scen.get("close_socket") is False:
            # the application keeps ownership of the sockets: close() then
            # waits for the peer's close_notify
            self.c.conn.closeSocket = False
            self.s.conn.closeSocket = False
        if scen.get("alt_skeys"):
            # additional server key pairs (dual-certificate deployment)
            from tlslite.handshakesettings import VirtualHost, Keypair
            vh = VirtualHost()
            for kn in scen["alt_skeys"]:
                chain, key = creds.load("server", kn)
                vh.keys.append(Keypair(key, chain.x509List))
            self.sset.virtual_hosts = [vh]

    # -- handshake ops ------------------------------------------------------
    def client_gen(self, session=None, blocking=False):
        sc = self.scen
        c = self.c.conn
        fl = sc.get("flavour", "cert")
        kw = {}
        if sc.get("sni"):
            kw["serverName"] = sc["sni"]
        if fl in ("cert", "psk"):
            chain = key = None
            if sc.get("ckey") == "empty":
                # a client that can do (post-handshake) client authentication
                # but has no certificate to show
                from tlslite.api import X509CertChain
                chain, key = X509CertChain(), creds.load("client", "rsa")[1]
            elif sc.get("ckey"):
                chain, key = creds.load("client", sc["ckey"])
            if sc.get("alpn_c") is not None:
                kw["alpn"] = [bytearray(a.encode()) for a in sc["alpn_c"]]
            if sc.get("npn_c") is not None:
                kw["nextProtos"] = [a.encode() for a in sc["npn_c"]]
            return lambda: c.handshakeClientCert(
                chain, key, session=session, settings=self.cset,
                checker=sc.get("_checker_c"), async_=not blocking, **kw)
        if fl in ("srp", "srp_cert"):
            return lambda: c.handshakeClientSRP(
                sc.get("srp_user", "test"), sc.get("srp_pass", "password"),
                session=session, settings=self.cset, async_=not blocking,
                **kw)
        if fl == "anon":
            return lambda: c.handshakeClientAnonymous(
                session=session, settings=self.cset, async_=not blocking,
                **kw)
        raise ValueError(fl)

    def server_gen(self, cache=None, blocking=False):
        sc = self.scen
        s = self.s.conn
        # the blocking entry point is a separate wrapper with its own
        # argument forwarding
        hs_ = s.handshakeServer if blocking else s.handshakeServerAsync
        fl = sc.get("flavour", "cert")
        kw = {}
        if sc.get("alpn_s") is not None:
            kw["alpn"] = [bytearray(a.encode()) for a in sc["alpn_s"]]
        if sc.get("npn_s") is not None:
            kw["nextProtos"] = [a.encode() for a in sc["npn_s"]]
        if sc.get("sni_s"):
            kw["sni"] = sc["sni_s"]
        if cache is not None:
            kw["sessionCache"] = cache
        if fl in ("cert", "psk"):
            chain = key = None
            if sc.get("skey"):
                chain, key = creds.load("server", sc["skey"])
            if sc.get("dc"):
                # delegated credential (RFC 9345): [dc algorithm, signer]
                dck, dc = creds.delegated(sc["skey"], sc["dc"][0],
                                          sc["dc"][1] if len(sc["dc"]) > 1
                                          else None)
                if sc.get("dc_extra_chain"):
                    from tlslite.api import X509CertChain
                    other = creds.load("server", sc["dc_extra_chain"])[0]
                    chain = X509CertChain(other.x509List + chain.x509List)
                kw["dc_key"] = dck
                kw["del_cred"] = dc
                key = None
            return lambda: hs_(
                certChain=chain, privateKey=key,
                reqCert=bool(sc.get("req_cert")), settings=self.sset,
                checker=sc.get("_checker_s"), **kw)
        if fl == "srp":
            db = creds.verifier_db()
            return lambda: hs_(
                verifierDB=db, settings=self.sset, **kw)
        if fl == "srp_cert":
            db = creds.verifier_db()
            chain, key = creds.load("server", sc.get("skey", "rsa"))
            return lambda: hs_(
                verifierDB=db, certChain=chain, privateKey=key,
                settings=self.sset, **kw)
        if fl == "anon":
            return lambda: hs_(
                anon=True, settings=self.sset, **kw)
        raise ValueError(fl)

    def handshake(self, session=None, cache=None):
        """Start both handshakes and run the simulation to quiescence."""
        oc = self.c.start(("handshake", "client"), self.client_gen(session))
        os_ = self.s.start(("handshake", "server"), self.server_gen(cache))
        st = self.sim.run()
        return oc, os_, st


def new_run(seed, chooser=None, max_steps=20000, sched="random"):
    """Fresh Sim with seams reset for a run."""
    kernel.reset_harness(seed)
    creds.reset_keys()
    if chooser is None:
        chooser = kernel.Chooser(seed=seed)
    return loop.Sim(chooser, seed=seed, max_steps=max_steps, sched=sched)
