"""Fan-out driver: seeds -> runs on 16 forked workers, known-findings filter,
minimisation, replay files, determinism self-test and evidence JSON.

A check module provides:

  ID, LEVEL ('exploration' | 'fault_enumeration'), RULE (text),
  plan(tier, base_seed) -> list of job dicts  (each JSON-able; a job is one
        simulated run: {'seed': int, ...static knobs...})
  run(job, streams=None) -> result dict:
        violations: [ {rule, sig, msg} ]
        nontrivial: bool           key: str (distinctness digest)
        digest: str (full event-log digest, for the determinism self-test)
        faults: {kind: count}      probes: {name: count}
        steps: int  sim_time: float  order: str  states: [str]
        streams: {...} (choice log)   sample: JSON-able descriptor
  optional: BUDGET = {'quick': seconds, 'thorough': seconds}
            COMPONENTS_REAL / COMPONENTS_STUB, ASSUMPTIONS, EXHAUSTIVE(tier)
"""

import faulthandler
import hashlib
import importlib
import json
import multiprocessing
import os
import signal
import subprocess
import sys
import time
import traceback
from concurrent.futures import ProcessPoolExecutor, as_completed
from concurrent.futures.process import BrokenProcessPool

VERIF = os.path.dirname(os.path.dirname(os.path.abspath(__file__)))
# runs against a scratch copy (--repo) must not overwrite the evidence of the
# real tree: tools/confirm_seed.py points this somewhere else
EVID = os.environ.get("VERIF_EVIDENCE_DIR") or os.path.join(VERIF, "evidence")
REPLAYS = os.path.join(EVID, "replays")
KNOWN = os.path.join(VERIF, "known_findings.json")

RUN_TIMEOUT = int(os.environ.get("VERIF_RUN_TIMEOUT", "300"))


class RunTimeout(BaseException):
    pass


def _alarm(_sig, _frm):
    raise RunTimeout()


def guarded_run(mod, job, streams=None):
    """Run one job; harness exceptions are classified apart from violations."""
    signal.signal(signal.SIGALRM, _alarm)
    signal.setitimer(signal.ITIMER_REAL, job.get("timeout", RUN_TIMEOUT))
    t0 = time.time()
    try:
        res = mod.run(job, streams)
    except RunTimeout:
        res = {"violations": [{"rule": "hang", "sig": "hang|wall>%ss" %
                               job.get("timeout", RUN_TIMEOUT),
                               "msg": "run exceeded wall timeout"}],
               "nontrivial": False, "key": "timeout", "digest": "timeout",
               "faults": {}, "probes": {}, "steps": 0, "streams": {},
               "sample": job, "timeout": True}
    except Exception:
        res = {"harness_error": traceback.format_exc(), "violations": [],
               "nontrivial": False, "key": "err", "digest": "err",
               "faults": {}, "probes": {}, "steps": 0, "streams": {},
               "sample": job}
    finally:
        signal.setitimer(signal.ITIMER_REAL, 0)
    res["wall"] = time.time() - t0
    res["job"] = job
    return res


def _work(modname, jobs, deadline):
    faulthandler.enable()
    mod = importlib.import_module(modname)
    out = []
    for job in jobs:
        if time.time() > deadline:
            out.append({"skipped": True, "job": job})
            continue
        r = guarded_run(mod, job)
        # keep the payload small: streams only for interesting runs
        if not r["violations"] and not r.get("harness_error") \
                and not job.get("keep"):
            r.pop("streams", None)
            r.pop("sample", None)
        out.append(r)
    return out


def load_known():
    if not os.path.exists(KNOWN):
        return []
    with open(KNOWN) as f:
        return json.load(f).get("findings", [])


def match_known(prop, v, known):
    for k in known:
        if k.get("property") != prop or k.get("status") != "known":
            continue
        m = k.get("match", {})
        if m.get("rule") and m["rule"] != v["rule"]:
            continue
        if all(s in v["sig"] for s in m.get("sig_contains", [])):
            return k
    return None


def vsig(v):
    return v["rule"] + "|" + v["sig"]


# ---------------------------------------------------------------------------
# minimisation

def shrink(mod, job, streams, target, budget_s=90, max_evals=400):
    """Minimise the choice streams while the same violation signature stays."""
    t_end = time.time() + budget_s
    evals = [0]

    def fails(st):
        if evals[0] >= max_evals or time.time() > t_end:
            return False
        evals[0] += 1
        r = guarded_run(mod, job, st)
        return any(vsig(v) == target for v in r["violations"])

    cur = {k: list(v) for k, v in streams.items() if any(v)}
    if not fails(cur):
        return streams, evals[0], False
    changed = True
    while changed and time.time() < t_end and evals[0] < max_evals:
        changed = False
        for label in sorted(cur, key=lambda k: -len(cur[k])):
            if label not in cur:
                continue
            # drop the whole stream
            cand = {k: v for k, v in cur.items() if k != label}
            if fails(cand):
                cur = cand
                changed = True
                continue
            # truncate tail by halves
            vals = cur[label]
            n = len(vals)
            step = n // 2
            while step >= 1:
                if len(cur[label]) - step >= 0:
                    cand = dict(cur)
                    cand[label] = cur[label][:len(cur[label]) - step]
                    if fails(cand):
                        cur = cand
                        changed = True
                        continue
                step //= 2
            # zero single entries (only for short streams: cost)
            vals = cur[label]
            if len(vals) <= 40:
                for i in range(len(vals)):
                    if cur[label][i] == 0:
                        continue
                    cand = dict(cur)
                    cand[label] = list(cur[label])
                    cand[label][i] = 0
                    if fails(cand):
                        cur = cand
                        changed = True
                    elif cur[label][i] > 1:
                        cand[label] = list(cur[label])
                        cand[label][i] = 1
                        if fails(cand):
                            cur = cand
                            changed = True
            # strip trailing zeros
            while cur[label] and cur[label][-1] == 0:
                cur[label].pop()
            if not cur[label]:
                del cur[label]
    return cur, evals[0], True


def repo_rev():
    from . import kernel
    try:
        out = subprocess.run(["git", "-C", kernel.REPO, "rev-parse", "HEAD"],
                             capture_output=True, text=True, timeout=20)
        rev = out.stdout.strip()
        d = subprocess.run(["git", "-C", kernel.REPO, "status", "--porcelain",
                            "--untracked-files=no"],
                           capture_output=True, text=True, timeout=20)
        if d.stdout.strip():
            rev += "+dirty"
        return rev
    except Exception:
        return "unknown"


def write_replay(prop, job, streams, v, minimised, evals):
    os.makedirs(REPLAYS, exist_ok=True)
    body = {"property": prop, "job": job, "streams": streams,
            "violation": v, "minimised": minimised, "shrink_evals": evals,
            "repo_rev": repo_rev()}
    dig = hashlib.sha256(json.dumps(body, sort_keys=True).encode()) \
        .hexdigest()[:12]
    path = os.path.join(REPLAYS, "%s-%s.json" % (prop, dig))
    with open(path, "w") as f:
        json.dump(body, f, indent=1, sort_keys=True)
    return path


def fresh_env(hashseed="0"):
    env = dict(os.environ)
    env["PYTHONHASHSEED"] = hashseed
    env["PYTHONDONTWRITEBYTECODE"] = "1"
    return env


def replay_file(mod, path):
    """Re-execute a replay file in this (fresh) process."""
    with open(path) as f:
        body = json.load(f)
    r = guarded_run(mod, body["job"], body.get("streams"))
    want = vsig(body["violation"])
    got = [vsig(v) for v in r["violations"]]
    if r.get("harness_error"):
        print("HARNESS-ERROR replay raised inside the harness:\n" +
              r["harness_error"])
        return 2
    if want in got:
        print("REPRODUCED %s" % want)
        print("  " + body["violation"].get("msg", ""))
        print("VIOLATION property=%s replay=%s" % (body["property"], path))
        return 1
    print("REPLAY-MISMATCH wanted %s got %s" % (want, got))
    return 2 if got else 0


def confirm_in_fresh_process(prop, path):
    cmd = [sys.executable, os.path.join(VERIF, "check"), prop,
           "--replay", path]
    p = subprocess.run(cmd, capture_output=True, text=True,
                       env=fresh_env("0"), timeout=600)
    return p.returncode == 1 and "REPRODUCED" in p.stdout, p.stdout[-2000:]


# ---------------------------------------------------------------------------

def digests_subprocess(prop, jobs, hashseed, tier):
    """Digest of each job as computed by a fresh interpreter."""
    cmd = [sys.executable, os.path.join(VERIF, "check"), prop,
           "--digest-jobs", "-", "--tier", tier]
    p = subprocess.run(cmd, input=json.dumps(jobs), capture_output=True,
                       text=True, env=fresh_env(hashseed), timeout=1800)
    if p.returncode != 0:
        raise RuntimeError("digest subprocess failed: %s" % p.stderr[-2000:])
    return json.loads(p.stdout.strip().splitlines()[-1])


def chunks(lst, n):
    for i in range(0, len(lst), n):
        yield lst[i:i + n]


def main_check(mod, tier, base_seed, workers=None, max_jobs=None):
    """Run a check; returns the process exit status."""
    from . import kernel
    t0 = time.time()
    prop = mod.ID
    os.makedirs(EVID, exist_ok=True)
    evpath = os.path.join(EVID, prop + ".json")
    budget = getattr(mod, "BUDGET", {"quick": 60, "thorough": 900})[tier]
    budget = float(os.environ.get("VERIF_BUDGET_S", budget))
    jobs = mod.plan(tier, base_seed)
    if max_jobs:
        jobs = jobs[:max_jobs]
    ncpu = workers or int(os.environ.get("VERIF_WORKERS", "0")) or \
        min(16, os.cpu_count() or 2)
    known = load_known()
    deadline = t0 + budget
    results = []
    harness_errors = []
    csize = max(1, min(getattr(mod, "CHUNK", 8),
                       len(jobs) // (ncpu * 4) or 1))
    ctx = multiprocessing.get_context("fork")
    modname = mod.__name__
    try:
        with ProcessPoolExecutor(max_workers=ncpu, mp_context=ctx) as ex:
            futs = [ex.submit(_work, modname, ch, deadline)
                    for ch in chunks(jobs, csize)]
            for fu in as_completed(futs):
                results.extend(fu.result())
    except BrokenProcessPool as e:
        harness_errors.append("worker died: %r" % (e,))

    done = [r for r in results if not r.get("skipped")]
    skipped = len(results) - len(done)
    for r in done:
        if r.get("harness_error"):
            harness_errors.append(r["harness_error"])

    # ---- determinism self-test (fresh interpreter, other PYTHONHASHSEED)
    det_pairs = 0
    det_bad = []
    ndet = getattr(mod, "DETERMINISM", {"quick": 6, "thorough": 40})[tier]
    cand = [r for r in done if not r.get("timeout")
            and not r.get("harness_error")]
    if ndet and cand and not os.environ.get("VERIF_NO_DET"):
        step = max(1, len(cand) // ndet)
        pick = cand[::step][:ndet]
        try:
            hs = str(1 + (base_seed % 1000))
            got = digests_subprocess(prop, [r["job"] for r in pick], hs, tier)
            for r, d in zip(pick, got):
                det_pairs += 1
                if d != r["digest"]:
                    det_bad.append((r["job"], r["digest"], d))
        except Exception as e:
            harness_errors.append("determinism self-test: %r" % (e,))
    for job, a, b in det_bad:
        harness_errors.append("non-deterministic run job=%s %s != %s" %
                              (json.dumps(job, sort_keys=True), a, b))

    # ---- violations
    new_viol = {}
    known_seen = {}
    for r in done:
        for v in r["violations"]:
            k = match_known(prop, v, known)
            if k is not None:
                known_seen.setdefault(k["id"], [k, 0])[1] += 1
                continue
            new_viol.setdefault(vsig(v), []).append(r)
    exit_code = 0
    viol_lines = []
    nviol = 0
    max_report = getattr(mod, "MAX_REPORT", 6)
    sigs = sorted(new_viol, key=lambda k: (-len(new_viol[k]), k))
    if len(sigs) > max_report:
        print("note: %d distinct violation signatures; minimising and "
              "reporting the %d most frequent (others: %s)" %
              (len(sigs), max_report, ", ".join(sigs[max_report:][:20])))
    sigs = sigs[:max_report]
    per_shrink = max(10, min(getattr(mod, "SHRINK_S", 60),
                             150 // max(1, len(sigs))))
    for sig in sigs:
        runs = new_viol[sig]
        runs.sort(key=lambda r: (sum(len(s) for s in
                                     r.get("streams", {}).values()),
                                 json.dumps(r["job"], sort_keys=True)))
        r = runs[0]
        v = [x for x in r["violations"] if vsig(x) == sig][0]
        streams = r.get("streams", {})
        # a run may hand back a job extended with its recorded environment
        # (foreign peer with real randomness): that is what gets replayed
        rjob = r.get("replay_job") or r["job"]
        if r.get("timeout"):
            mstreams, evals, ok = streams, 0, False
        elif r.get("replay_job"):
            # the recording fixes the whole execution: nothing to shrink
            mstreams, evals, ok = streams, 0, False
        else:
            mstreams, evals, ok = shrink(
                mod, rjob, streams, sig,
                budget_s=per_shrink)
        path = write_replay(prop, rjob, mstreams, v, ok, evals)
        okc, outp = (False, "") if r.get("timeout") else \
            confirm_in_fresh_process(prop, path)
        if not okc and not r.get("timeout"):
            # fall back to the un-minimised streams
            path = write_replay(prop, rjob, streams, v, False, evals)
            okc, outp = confirm_in_fresh_process(prop, path)
        if not okc and not r.get("timeout"):
            harness_errors.append("violation %s did not reproduce in a fresh "
                                  "process: %s" % (sig, outp))
            continue
        nviol += 1
        exit_code = 1
        print("violation: %s (%d runs)\n  %s" % (sig, len(runs), v["msg"]))
        viol_lines.append("VIOLATION property=%s replay=%s" % (prop, path))

    for kid in sorted(known_seen):
        k, n = known_seen[kid]
        print("KNOWN-FINDING: property=%s %s [%s, seen in %d runs]" %
              (prop, k["what"], kid, n))

    # ---- evidence
    faults = {}
    probes = {}
    keys = set()
    orders = set()
    states = set()
    steps = 0
    sim_time = 0.0
    inconcl = 0
    for r in done:
        for k, n in r.get("faults", {}).items():
            faults[k] = faults.get(k, 0) + n
        for k, n in r.get("probes", {}).items():
            probes[k] = probes.get(k, 0) + n
        if r.get("nontrivial"):
            keys.add(r["key"])
        if r.get("order"):
            orders.add(r["order"])
        for s in r.get("states", []):
            states.add(s)
        steps += r.get("steps", 0)
        sim_time += r.get("sim_time", 0.0)
        if r.get("inconclusive"):
            inconcl += 1
    wall = time.time() - t0
    samples = [{"job": r["job"], "sample": r.get("sample"),
                "streams": r.get("streams")}
               for r in done if r.get("streams") is not None
               and "sample" in r][:4]
    if not samples:
        samples = [{"job": r["job"]} for r in done[:3]]
    weak = sorted(k for k in getattr(mod, "PROBES", []) if not probes.get(k))
    ev = {
        "property_id": prop, "tier": tier, "seed": base_seed,
        "level": mod.LEVEL,
        "coverage": {
            "evaluations": len(done),
            "distinct_nontrivial": len(keys),
            "rule": mod.RULE,
            "samples": samples,
            "planned": len(jobs), "skipped_for_budget": skipped,
            "runs_per_hour": int(len(done) / wall * 3600) if wall else 0,
            "sim_steps": steps,
            "sim_time_covered_s": sim_time,
            "fault_counts": dict(sorted(faults.items())),
            "probes": dict(sorted(probes.items())),
            "weak_probes": weak,
            "distinct_interleavings": len(orders),
            "distinct_states": len(states),
            "inconclusive": inconcl,
            "known_findings_seen": {k: v[1] for k, v in known_seen.items()},
            "determinism_pairs_checked": det_pairs,
            "determinism_mismatches": len(det_bad),
            "components_real": getattr(mod, "COMPONENTS_REAL", []),
            "components_stub": getattr(mod, "COMPONENTS_STUB", []),
            "workers": ncpu,
            "repo_rev": repo_rev(),
        },
        "assumptions": getattr(mod, "ASSUMPTIONS", []),
        "wall_s": round(wall, 2),
        "violations": nviol,
    }
    ex = getattr(mod, "EXHAUSTIVE", None)
    if ex is not None:
        ev["coverage"]["exhaustive"] = bool(ex(tier)) and skipped == 0
    with open(evpath, "w") as f:
        json.dump(ev, f, indent=1, sort_keys=True, default=str)
        f.write("\n")

    print("%s %s: %d runs (%d planned, %d skipped), %d distinct non-trivial, "
          "%d steps, %.1fs, faults=%s" %
          (prop, tier, len(done), len(jobs), skipped, len(keys), steps, wall,
           json.dumps(dict(sorted(faults.items())))))
    slow = sorted(done, key=lambda r: -r.get("wall", 0))[:3]
    print("slowest runs: " + "; ".join(
        "%.1fs %s" % (r.get("wall", 0), json.dumps(r["job"], sort_keys=True))
        for r in slow))
    if weak:
        print("weak_probe: " + ", ".join(weak))
    for line in viol_lines:
        print(line)
    if harness_errors:
        for h in harness_errors[:5]:
            print("HARNESS-ERROR " + h)
        if exit_code == 0:
            exit_code = 2
    if not done and exit_code == 0:
        print("HARNESS-ERROR no runs completed")
        exit_code = 2
    return exit_code
