"""Byte- and field-level mutation operators for handshake messages (C08)."""

import zlib


def length_fields(body, max_cands=24):
    """Heuristic: positions (p, w) of big-endian length prefixes inside a
    handshake message body: value v at [p, p+w) with p+w+v <= len(body),
    preferring those that reach exactly the end of the body or of an
    enclosing candidate."""
    n = len(body)
    out = []
    ends = {n}
    for p in range(0, min(n, 4000)):
        for w in (1, 2, 3):
            if p + w > n:
                continue
            v = int.from_bytes(body[p:p + w], "big")
            if v == 0 and w > 1:
                continue
            end = p + w + v
            if end in ends and v > 0:
                out.append((p, w))
                ends.add(p)          # a field starting here closes a parent
    # dedupe, keep order
    seen = set()
    res = []
    for c in out:
        if c not in seen:
            seen.add(c)
            res.append(c)
    return res[:max_cands]


def fix_hs_len(raw):
    """Recompute the 3-byte handshake length so header and body agree."""
    b = bytearray(raw)
    if len(b) >= 4:
        ln = len(b) - 4
        b[1:4] = ln.to_bytes(3, "big")
    return bytes(b)


def op_truncate(raw, ch, fix):
    if len(raw) <= 4:
        return raw
    k = 4 + ch.draw(len(raw) - 4, "mu.trunc")
    out = raw[:k]
    return fix_hs_len(out) if fix else out


def op_extend(raw, ch, fix):
    extra = bytes([ch.draw(256, "mu.extb")]) * (1 + ch.draw(8, "mu.extn"))
    out = raw + extra
    return fix_hs_len(out) if fix else out


def op_len_mut(raw, ch):
    body = raw[4:]
    cands = length_fields(body)
    if not cands:
        return None
    p, w = cands[ch.draw(len(cands), "mu.lenidx")]
    v = int.from_bytes(body[p:p + w], "big")
    mx = (1 << (8 * w)) - 1
    choices = [v + 1, max(0, v - 1), 0, mx, v + 255, v // 2]
    nv = choices[ch.draw(len(choices), "mu.lenval")] & mx
    if nv == v:
        nv = (v + 1) & mx
    b = bytearray(raw)
    b[4 + p:4 + p + w] = nv.to_bytes(w, "big")
    return bytes(b)


def op_byte_set(raw, ch):
    if len(raw) <= 4:
        return None
    b = bytearray(raw)
    for _ in range(1 + ch.draw(3, "mu.nbytes")):
        p = 4 + ch.draw(len(b) - 4, "mu.pos")
        b[p] = [0, 0xff, b[p] ^ 1, b[p] ^ 0x80, (b[p] + 1) & 0xff,
                ch.draw(256, "mu.val")][ch.draw(6, "mu.how")]
    return bytes(b)


def op_hs_header(raw, ch):
    """Mutate the handshake header itself."""
    b = bytearray(raw)
    k = ch.draw(5, "mu.hdr")
    if k == 0:
        b[1:4] = (0xffffff).to_bytes(3, "big")
    elif k == 1:
        b[1:4] = (0).to_bytes(3, "big")
    elif k == 2:
        b[0] = [3, 5, 6, 9, 10, 21, 22, 23, 99, 255][ch.draw(10, "mu.type")]
    elif k == 3:
        ln = int.from_bytes(b[1:4], "big")
        b[1:4] = ((ln + 1) & 0xffffff).to_bytes(3, "big")
    else:
        ln = int.from_bytes(b[1:4], "big")
        b[1:4] = (max(0, ln - 1)).to_bytes(3, "big")
    return bytes(b)


def op_splice(raw, ch):
    if len(raw) < 8:
        return None
    a = 4 + ch.draw(len(raw) - 4, "mu.sa")
    n = 1 + ch.draw(min(16, len(raw) - a), "mu.sn")
    k = ch.draw(3, "mu.sk")
    if k == 0:       # delete
        return fix_hs_len(raw[:a] + raw[a + n:])
    if k == 1:       # duplicate
        return fix_hs_len(raw[:a] + raw[a:a + n] + raw[a:])
    return fix_hs_len(raw[:a] + bytes(n) + raw[a + n:])   # zero out


GENERIC = ["trunc_fix", "trunc_raw", "extend_fix", "extend_raw", "len_mut",
           "len_mut", "byte_set", "byte_set", "hs_header", "splice"]


def generic(raw, kind, ch):
    raw = bytes(raw)
    if kind == "trunc_fix":
        return op_truncate(raw, ch, True)
    if kind == "trunc_raw":
        return op_truncate(raw, ch, False)
    if kind == "extend_fix":
        return op_extend(raw, ch, True)
    if kind == "extend_raw":
        return op_extend(raw, ch, False)
    if kind == "len_mut":
        return op_len_mut(raw, ch)
    if kind == "byte_set":
        return op_byte_set(raw, ch)
    if kind == "hs_header":
        return op_hs_header(raw, ch)
    if kind == "splice":
        return op_splice(raw, ch)
    raise ValueError(kind)


def cert_bomb(declared, inflated, algo=1):
    """CompressedCertificate (RFC 8879) whose payload inflates to `inflated`
    bytes while declaring `declared`."""
    comp = zlib.compress(bytes(inflated), 9)
    body = algo.to_bytes(2, "big") + declared.to_bytes(3, "big") + \
        len(comp).to_bytes(3, "big") + comp
    return bytes([25]) + len(body).to_bytes(3, "big") + body
