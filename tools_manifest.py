#!/venv/bin/python
"""Regenerates MANIFEST.json from the check modules (single source of truth)."""
import importlib
import json
import os
import sys

VERIF = os.path.dirname(os.path.abspath(__file__))
sys.path.insert(0, VERIF)

NOT_APPLICABLE = [
    {"property_id": "C09", "reason": "pure functions of (key, nonce, AAD, message, label, length): no schedule, peer, clock or fault to simulate; deciding it is input generation against a reference, not simulation (DESIGN.md section 5)"},
    {"property_id": "C12", "reason": "pure predicate over (record body, MAC key, seqnum, type, version); the decisive inputs (maximal/intermediate padding, short bodies) are never produced by tlslite's own sender so a two-endpoint simulation cannot reach them (DESIGN.md section 5)"},
    {"property_id": "C15", "reason": "codec round-trip / framing are pure parse/write functions per class; no nondeterminism, time, I/O or multi-party behaviour to simulate (DESIGN.md section 5)"},
]

CLAIMED = sys.argv[1:] if len(sys.argv) > 1 else None


def main():
    ids = []
    for fn in sorted(os.listdir(os.path.join(VERIF, "checks"))):
        if fn.startswith("c") and fn.endswith(".py") and fn[1:3].isdigit():
            ids.append(fn[:-3].upper())
    checks = []
    for cid in ids:
        mod = importlib.import_module("checks." + cid.lower())
        if getattr(mod, "WITHDRAWN", False):
            continue
        checks.append({
            "property_id": cid,
            "quick_cmd": "./check %s --tier quick" % cid,
            "thorough_cmd": "./check %s --tier thorough" % cid,
            "evidence_file": "/verif/evidence/%s.json" % cid,
            "replay_cmd_template": "./check %s --replay {path}" % cid,
            "engine": "sim",
            "level_claimed": {"category": mod.LEVEL,
                              "text": mod.LEVEL_TEXT,
                              "design_ref": getattr(mod, "DESIGN_REF",
                                                    "DESIGN.md section 3, " + cid)},
            "level_note": mod.LEVEL_NOTE,
            "technique": getattr(mod, "TECHNIQUE",
                                 "deterministic simulation with fault injection (seeded schedule/fault search, replayable choice log)"),
        })
    claimed = set(c["property_id"] for c in checks)
    na = [n for n in NOT_APPLICABLE if n["property_id"] not in claimed]
    allp = [json.loads(l)["id"] for l in open(os.path.join(VERIF, "properties.jsonl"))]
    for p in allp:
        if p not in claimed and p not in [n["property_id"] for n in na]:
            na.append({"property_id": p, "reason": "not yet claimed: check under construction (no alarm is raised for it)"})
    man = {
        "version": 1,
        "setup_cmd": "/venv/bin/python -c \"import sys; sys.path.insert(0,'/verif'); from sim import kernel; kernel.boot('/repo'); import sim.driver, sim.nodes, model.suites; print('ok')\"",
        "hooks": {
            "guard": "TLSLITE_NG_VERIF",
            "enable": "no source hooks: the checks import tlslite from /repo's working tree and rebind os.urandom, the module-global `time` of tlsconnection/tlsrecordlayer/session/sessioncache and instance locks inside the check process only",
            "baseline_off_cmd": "cd /repo && /venv/bin/python -m pytest -ra -q -p no:cacheprovider --timeout=900 --continue-on-collection-errors",
            "source_commits": [],
            "add_only": True,
        },
        "engines": [{"name": "sim", "path": "/verif/sim",
                     "serves_properties": sorted(claimed),
                     "kind_free_text": "single-process deterministic simulator: Chooser (seed -> keyed choice streams), FakeSocket/Pipe network with fault injection, per-node entropy and clock seams, baton thread scheduler, 16-worker seed fan-out, choice-log minimiser, replay files"}],
        "checks": checks,
        "not_applicable": na,
        "notes": "See DESIGN.md. Exit 0 = held; exit 1 + VIOLATION line = violation with replay; exit 2 + HARNESS-ERROR = harness fault (never a pass). KNOWN-FINDING lines come from known_findings.json only.",
    }
    with open(os.path.join(VERIF, "MANIFEST.json"), "w") as f:
        json.dump(man, f, indent=1)
        f.write("\n")
    print("claimed:", sorted(claimed))


main()
