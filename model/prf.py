"""TLS PRFs and HKDF written on stdlib hmac/hashlib only (RFC 2246 s5,
RFC 5246 s5, RFC 5705, RFC 7627, RFC 8446 s7.1/7.5)."""

import hashlib
import hmac


def p_hash(hname, secret, seed, n):
    out = b""
    a = seed
    while len(out) < n:
        a = hmac.new(secret, a, hname).digest()
        out += hmac.new(secret, a + seed, hname).digest()
    return out[:n]


def prf10(secret, label, seed, n):
    """TLS 1.0/1.1: P_MD5(S1) xor P_SHA1(S2)."""
    half = (len(secret) + 1) // 2
    s1, s2 = secret[:half], secret[len(secret) - half:]
    a = p_hash("md5", s1, label + seed, n)
    b = p_hash("sha1", s2, label + seed, n)
    return bytes(x ^ y for x, y in zip(a, b))


def prf12(hname, secret, label, seed, n):
    return p_hash(hname, secret, label + seed, n)


def prf(ver, hname, secret, label, seed, n):
    ver = tuple(ver)
    if ver in ((3, 1), (3, 2)):
        return prf10(secret, label, seed, n)
    if ver == (3, 3):
        return prf12(hname, secret, label, seed, n)
    raise ValueError(ver)


def ssl3_key_block(master, server_random, client_random, n):
    """SSLv3 key expansion: MD5(ms + SHA1('A'.. + ms + sr + cr))."""
    out = b""
    i = 0
    while len(out) < n:
        lab = bytes([ord("A") + i]) * (i + 1)
        sha = hashlib.sha1(lab + master + server_random +
                           client_random).digest()
        out += hashlib.md5(master + sha).digest()
        i += 1
    return out[:n]


def hkdf_extract(hname, salt, ikm):
    return hmac.new(salt, ikm, hname).digest()


def hkdf_expand(hname, prk, info, n):
    out = b""
    t = b""
    i = 1
    while len(out) < n:
        t = hmac.new(prk, t + info + bytes([i]), hname).digest()
        out += t
        i += 1
    return out[:n]


def hkdf_expand_label(hname, secret, label, context, n):
    full = b"tls13 " + label
    info = n.to_bytes(2, "big") + bytes([len(full)]) + full + \
        bytes([len(context)]) + context
    return hkdf_expand(hname, secret, info, n)


def derive_secret(hname, secret, label, messages_hash):
    n = hashlib.new(hname).digest_size
    return hkdf_expand_label(hname, secret, label, messages_hash, n)


def exporter13(hname, exporter_master, label, context, n):
    empty = hashlib.new(hname, b"").digest()
    s = derive_secret(hname, exporter_master, label, empty)
    return hkdf_expand_label(hname, s, b"exporter",
                             hashlib.new(hname, context).digest(), n)


def record_mac(hname, key, seq, ctype, ver, data):
    """HMAC of a TLS 1.0-1.2 record (RFC 5246 6.2.3.1)."""
    m = hmac.new(key, digestmod=hname)
    m.update(seq.to_bytes(8, "big"))
    m.update(bytes([ctype, ver[0], ver[1]]))
    m.update(len(data).to_bytes(2, "big"))
    m.update(data)
    return m.digest()
