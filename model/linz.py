"""Small linearizability checker (Wing & Gong search with memoisation).

history: list of ops, each {'id', 'inv': int, 'ret': int, 'op': tuple,
'res': value}.  model: object with .init() -> state (hashable) and
.apply(state, op) -> (new_state, result).  Pending ops are not supported
(every op in the history has returned)."""


def check(history, model, max_nodes=200000):
    ops = sorted(history, key=lambda o: o["inv"])
    n = len(ops)
    seen = set()
    nodes = [0]

    def search(done, state):
        if len(done) == n:
            return True
        key = (done, state)
        if key in seen:
            return False
        seen.add(key)
        nodes[0] += 1
        if nodes[0] > max_nodes:
            raise RuntimeError("linearizability search budget exceeded")
        # minimal ops: not done, and no other not-done op returned before
        # their invocation
        pend = [o for o in ops if o["id"] not in done]
        first_ret = min(o["ret"] for o in pend)
        for o in pend:
            if o["inv"] > first_ret:
                continue
            st2, res = model.apply(state, o["op"])
            if res == o["res"]:
                if search(done | frozenset([o["id"]]), st2):
                    return True
        return False

    return search(frozenset(), model.init())
