"""Independent parse of IANA cipher-suite names (RFC 5246 A.5, RFC 4492,
RFC 5054, RFC 5288/5289, RFC 6655/7251, RFC 7905, RFC 8446 B.4).

Nothing here consults tlslite's classification lists; the only input is the
registered *name* of a suite.
"""

import re

CIPHERS = {
    # token -> (tlslite cipherName, key bytes, kind, block, fixed iv, tag len)
    "NULL": ("null", 0, "null", 0, 0, 0),
    "RC4_128": ("rc4", 16, "stream", 0, 0, 0),
    "3DES_EDE_CBC": ("3des", 24, "cbc", 8, 8, 0),
    "AES_128_CBC": ("aes128", 16, "cbc", 16, 16, 0),
    "AES_256_CBC": ("aes256", 32, "cbc", 16, 16, 0),
    "AES_128_GCM": ("aes128gcm", 16, "aead", 0, 4, 16),
    "AES_256_GCM": ("aes256gcm", 32, "aead", 0, 4, 16),
    "AES_128_CCM": ("aes128ccm", 16, "aead", 0, 4, 16),
    "AES_256_CCM": ("aes256ccm", 32, "aead", 0, 4, 16),
    "AES_128_CCM_8": ("aes128ccm_8", 16, "aead", 0, 4, 8),
    "AES_256_CCM_8": ("aes256ccm_8", 32, "aead", 0, 4, 8),
    "CHACHA20_POLY1305": ("chacha20-poly1305", 32, "aead", 0, 12, 16),
    "CHACHA20_POLY1305_draft_00": ("chacha20-poly1305_draft00", 32, "aead",
                                   0, 4, 16),
}
MACS = {"MD5": ("md5", 16), "SHA": ("sha", 20), "SHA256": ("sha256", 32),
        "SHA384": ("sha384", 48)}

KX = {
    # token -> (kx family, server auth key type, tlslite keyExchangeName,
    #           ServerKeyExchange expected)
    "RSA": ("rsa", "rsa", "rsa", False),
    "DHE_RSA": ("dhe", "rsa", "dhe_rsa", True),
    "DHE_DSS": ("dhe", "dsa", "dhe_dsa", True),
    "DH_DSS": ("dh", "dsa", None, False),
    "DH_RSA": ("dh", "rsa", None, False),
    "DH_ANON": ("dhe", None, "dh_anon", True),
    "ECDHE_RSA": ("ecdhe", "rsa", "ecdhe_rsa", True),
    "ECDHE_ECDSA": ("ecdhe", "ecdsa", "ecdhe_ecdsa", True),
    "ECDH_RSA": ("ecdh", "ecdsa_or_rsa", None, False),
    "ECDH_ECDSA": ("ecdh", "ecdsa", None, False),
    "ECDH_ANON": ("ecdhe", None, "ecdh_anon", True),
    "SRP_SHA": ("srp", None, "srp_sha", True),
    "SRP_SHA_RSA": ("srp", "rsa", "srp_sha_rsa", True),
    "SRP_SHA_DSS": ("srp", "dsa", None, True),
}


class Suite(object):
    def __init__(self, sid, name):
        self.id = sid
        self.name = name
        self.tls13 = False
        self.kx_token = None
        self.kx = None
        self.auth = None
        self.kx_setting = None
        self.ske = None
        m = re.match(r"^TLS_(.+)_WITH_(.+)$", name)
        if m:
            kxs, rest = m.group(1), m.group(2)
            self.kx_token = kxs
            self.kx, self.auth, self.kx_setting, self.ske = KX[kxs]
        else:
            rest = name[4:]
            self.tls13 = True
            self.kx = "tls13"
        # cipher + trailing hash
        ctok = None
        for tok in sorted(CIPHERS, key=len, reverse=True):
            if rest == tok or rest.startswith(tok + "_"):
                ctok = tok
                break
        if ctok is None:
            raise ValueError("cannot parse cipher in " + name)
        tail = rest[len(ctok):].lstrip("_")
        (self.cipher, self.key_len, self.kind, self.block, self.iv_len,
         self.tag_len) = CIPHERS[ctok]
        if self.tls13:
            self.iv_len = 12
        if self.kind == "aead":
            self.mac = "aead"
            self.mac_len = 0
            # trailing token (if any) is the PRF hash
            self.prf = {"": "sha256", "SHA256": "sha256",
                        "SHA384": "sha384"}[tail]
        else:
            self.mac, self.mac_len = MACS[tail]
            self.prf = "sha384" if tail == "SHA384" else "sha256"
        # versions in which the suite is defined
        if self.tls13:
            self.min_version, self.max_version = (3, 4), (3, 4)
        elif self.kind == "aead" or tail in ("SHA256", "SHA384"):
            self.min_version, self.max_version = (3, 3), (3, 3)
        else:
            # RFC 4492 / RFC 5054 formally start at TLS 1.0; the library (like
            # OpenSSL) also allows them in SSLv3 - accepted latitude.
            self.min_version, self.max_version = (3, 0), (3, 3)

    def defined_in(self, ver):
        return self.min_version <= tuple(ver) <= self.max_version

    def prf_for(self, ver):
        """PRF actually used in that version ('md5sha1' below TLS 1.2)."""
        if tuple(ver) < (3, 3):
            return "ssl3" if tuple(ver) == (3, 0) else "md5sha1"
        return self.prf

    def expansion(self, ver, etm, plain_len):
        """Expected ciphertext length of a record with plain_len bytes of
        plaintext (TLS 1.3: plain_len already includes the inner type byte
        and padding)."""
        ver = tuple(ver)
        if self.kind == "aead":
            if ver >= (3, 4):
                return plain_len + self.tag_len
            explicit = 8 if self.cipher.startswith("aes") else 0
            return explicit + plain_len + self.tag_len
        if self.kind in ("stream", "null"):
            return plain_len + self.mac_len
        # cbc
        iv = self.block if ver >= (3, 2) else 0
        if etm:
            padded = plain_len + 1
            padded += (-padded) % self.block
            return iv + padded + self.mac_len
        inner = plain_len + self.mac_len + 1
        inner += (-inner) % self.block
        return iv + inner


def parse_all(ietf_names):
    out = {}
    for sid, name in ietf_names.items():
        if name.startswith("SSL_CK_") or name.endswith("_SCSV"):
            continue
        out[sid] = Suite(sid, name)
    return out


# credentials usable for an auth key type
SERVER_KEYS_FOR_AUTH = {
    "rsa": ["rsa"],
    "ecdsa": ["ecdsa", "ecdsa384", "ecdsa521"],
    "dsa": ["dsa"],
}


def force_settings(suite, ver, etm=None):
    """HandshakeSettings overrides that leave `suite` as the only candidate
    of its kind for version `ver` (both sides)."""
    d = {"minVersion": list(ver), "maxVersion": list(ver),
         "cipherNames": [suite.cipher],
         "macNames": [suite.mac]}
    if suite.kx_setting:
        d["keyExchangeNames"] = [suite.kx_setting]
    if etm is not None:
        d["useEncryptThenMAC"] = bool(etm)
    return d
