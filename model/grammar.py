"""Legality of single deviations from an honest handshake flight
(RFC 5246 s7.3/7.4, RFC 5077, RFC 5054, RFC 8446 s2/4/5).

The byzantine peer's honest message sequence is known (from a fault-free
run of the same seed); a deviation is one operation on it.  legal() answers
whether the *resulting* sequence is still one the protocol permits the
victim to accept:  True (must be acceptable), False (must be rejected),
None (the RFCs leave latitude - either outcome is fine).
"""

# handshake type numbers
HELLO_REQUEST, CLIENT_HELLO, SERVER_HELLO, NST = 0, 1, 2, 4
EE, CERT, SKE, CERT_REQ, SHD, CERT_VERIFY, CKE, FINISHED = \
    8, 11, 12, 13, 14, 15, 16, 20
KEY_UPDATE, NEXT_PROTO, COMPRESSED_CERT = 24, 67, 25
CCS = "ccs"
APPDATA = "appdata"
ALERT_NOCERT = "alert_no_certificate"     # warning alert 41 (SSLv3 only)


def name(t):
    return {0: "HelloRequest", 1: "ClientHello", 2: "ServerHello",
            4: "NewSessionTicket", 8: "EncryptedExtensions",
            11: "Certificate", 12: "ServerKeyExchange",
            13: "CertificateRequest", 14: "ServerHelloDone",
            15: "CertificateVerify", 16: "ClientKeyExchange",
            20: "Finished", 24: "KeyUpdate", 67: "NextProtocol",
            25: "CompressedCertificate", CCS: "ChangeCipherSpec",
            APPDATA: "ApplicationData",
            ALERT_NOCERT: "Alert(no_certificate)"}.get(t, str(t))


def legal(op, ver, sender, seq, i, extra=None, after_finished=False,
          kex=None, early=False):
    """op in skip|dup|swap|insert|replace applied at index i of seq (list of
    message types sent by `sender` ('c'|'s') in a handshake of version
    ver).  extra = inserted / replacing type."""
    tls13 = tuple(ver) >= (3, 4)
    m = seq[i] if i < len(seq) else None
    # position relative to the sender's Finished
    fin_idx = max([k for k, t in enumerate(seq) if t == FINISHED] or [-1])
    post = i > fin_idx >= 0
    if op == "skip":
        if tls13:
            if m == CCS:
                return True           # compat CCS is optional
            if m == NST and post:
                return True           # tickets are optional
            if m == CERT_REQ:
                return True
            return False
        if m == CERT_REQ:
            return True               # server simply does not ask
        if m == HELLO_REQUEST:
            return True
        return False
    if op == "dup":
        if tls13:
            if m == CCS:
                return None
            if m == NST and post:
                return True
            if m == KEY_UPDATE:
                return True
            return False
        return False
    if op == "swap":
        a, b = seq[i], seq[i + 1]
        if tls13 and CCS in (a, b):
            # CCS may appear anywhere between the first hello and Finished
            other = b if a == CCS else a
            if other == FINISHED and sender == "c":
                return None
            return None
        if tls13 and a == NST and b == NST:
            return True
        return False
    if op == "insert":
        if extra == ALERT_NOCERT:
            # a stray warning alert: TLS <= 1.2 leaves it to the receiver,
            # TLS 1.3 treats every alert but close_notify / user_canceled
            # as an error (RFC 8446 section 6)
            return False if tls13 else None
        if extra == APPDATA and early and sender == "c" and not post:
            # the first ClientHello announced early data (RFC 8446 4.2.10):
            # records the server cannot use are skipped until the next
            # message of the client's it does process (a compatibility CCS
            # does not count); after that the window is shut
            first = 1
            while first < len(seq) and seq[first] == CCS:
                first += 1
            return None if i <= first else False
        if extra == APPDATA and post:
            # after the sender's Finished application data is what follows;
            # a TLS 1.3 server may send it right away (0.5-RTT)
            return True if (tls13 and sender == "s") else None
        if extra == CCS:
            if tls13 and not post:
                return None
            return False
        if extra == HELLO_REQUEST and sender == "s" and not tls13:
            return None               # clients may ignore HelloRequest
        if tls13 and post and extra in (NST, KEY_UPDATE) and sender == "s":
            return True
        if extra == CERT_REQ and sender == "s" and tls13 and post:
            # post-handshake authentication request: legal iff the client
            # offered post_handshake_auth, which the sequence does not show
            return None
        if extra == CERT_REQ and sender == "s" and tls13:
            # RFC 8446 4.3.2: optional, right after EncryptedExtensions
            if m in (CERT, COMPRESSED_CERT) and i > 0 and seq[i - 1] == EE \
                    and CERT_REQ not in seq:
                return True
            return False
        if extra == CERT_REQ and sender == "s" and not tls13:
            # a certificate-authenticated server may ask for a client
            # certificate right before ServerHelloDone (RFC 5246 7.4.4);
            # anonymous servers must not, and the SRP handshake of RFC 5054
            # (section 2.2, figure) has no CertificateRequest at all
            if kex == "srp":
                return False
            if m == SHD and CERT in seq[:i] and CERT_REQ not in seq:
                return None
            return False
        return False
    if op == "replace":
        if extra == m:
            return None      # same message type, other content: not ordering
        if extra == ALERT_NOCERT and tuple(ver) == (3, 0) and \
                sender == "c" and m == CERT:
            return None      # SSLv3's way of saying "I have no certificate"
        # = message i left out and `extra` sent in its place
        a = legal("skip", ver, sender, seq, i, kex=kex, early=early)
        if a is False:
            return False
        rest = seq[:i] + seq[i + 1:]
        b = legal("insert", ver, sender, rest, i, extra, kex=kex,
                  early=early)
        if b is False:
            return False
        return True if (a is True and b is True) else None
    if op == "append":
        # message m immediately followed, in the same record, by `extra`
        if tls13 and m in (CLIENT_HELLO, SERVER_HELLO, FINISHED, KEY_UPDATE):
            # RFC 8446 5.1: messages that precede a key change must end on
            # a record boundary
            return False
        # otherwise packing is fine iff the resulting message sequence is:
        # it is the same as inserting `extra` before message i+1
        if i + 1 < len(seq):
            return legal("insert", ver, sender, seq, i + 1, extra, kex=kex,
                         early=early)
        if tls13 and extra in (NST, KEY_UPDATE) and sender == "s":
            return True
        if not tls13 and extra == HELLO_REQUEST and sender == "s":
            return None      # after completion: ignored / no_renegotiation
        return False
    raise ValueError(op)
